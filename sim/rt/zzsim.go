// Package zzsim is the runtime side of the simulation seams that simrewrite
// splices into a scratch copy of goyang.  It is a leaf package (standard
// library only).  With no hook installed every function here behaves exactly
// like the construct it replaced: native map iteration order, real locks,
// real file system, no-op ticks.
//
// This file is part of /verif (sim/rt) and is copied to pkg/zzsim in the
// scratch copy; it is never committed to /repo.
package zzsim

import (
	"io/fs"
	"io/ioutil"
	"os"
	"sync"
)

// Site describes one seam inserted by simrewrite.
type Site struct {
	ID      string
	Kind    string // maprange | lock | func | loop | fs
	File    string
	Line    int
	Func    string
	KeyType string
	Expr    string
}

// Sites and Warnings are filled in by the generated sites_gen.go.
var (
	Sites    []Site
	Warnings []string
)

// ---------------------------------------------------------------------------
// R1: map iteration order

// MapOrder, when non-nil, decides the order in which a rewritten
// `for ... range <map>` visits the keys.  It receives the keys in native
// order and returns a permutation of their indices (or nil for "as is").
var MapOrder func(site string, keys []any) []int

// Iter is the iterator behind a rewritten map range.
type Iter[K comparable, V any] struct {
	m    map[K]V
	keys []K
	i    int
	k    K
	v    V
}

// Range snapshots the keys of m in the order chosen by MapOrder (native order
// if no hook is installed).  Entries deleted during the iteration are skipped
// and entries added during it are not visited, which is behaviour the Go
// specification allows for a native range.
func Range[M ~map[K]V, K comparable, V any](site string, m M) *Iter[K, V] {
	it := &Iter[K, V]{m: m}
	if len(m) == 0 {
		return it
	}
	it.keys = make([]K, 0, len(m))
	for k := range m {
		it.keys = append(it.keys, k)
	}
	if MapOrder != nil {
		anyKeys := make([]any, len(it.keys))
		for i, k := range it.keys {
			anyKeys[i] = k
		}
		if perm := MapOrder(site, anyKeys); perm != nil {
			nk := make([]K, len(it.keys))
			for i, p := range perm {
				nk[i] = it.keys[p]
			}
			it.keys = nk
		}
	}
	return it
}

// Next advances to the next key that is still present in the map.
func (it *Iter[K, V]) Next() bool {
	for it.i < len(it.keys) {
		k := it.keys[it.i]
		it.i++
		if v, ok := it.m[k]; ok {
			it.k, it.v = k, v
			return true
		}
	}
	return false
}

// Key returns the current key.
func (it *Iter[K, V]) Key() K { return it.k }

// Val returns the value stored under the current key when Next was called.
func (it *Iter[K, V]) Val() V { return it.v }

// ---------------------------------------------------------------------------
// R3: simulated time (ticks), call depth, preemption points

// Yield kinds passed to the scheduler hook.
const (
	YieldTick    = iota // function entry or loop head
	YieldLock           // about to acquire a lock
	YieldBlocked        // lock not available
	YieldUnlock         // just released a lock
)

// Overrun is the panic value used when a simulated-time or depth bound is
// exceeded.
type Overrun struct {
	What string // "ticks" or "depth"
	Site string
}

func (o Overrun) Error() string { return "zzsim: " + o.What + " bound exceeded at " + o.Site }

var (
	// Active switches tick accounting on.
	Active bool
	// Ticks is simulated time: one per function entry and loop head.
	Ticks uint64
	// TickBudget and MaxDepth bound one API call (0 = unbounded).
	TickBudget uint64
	MaxDepth   int
	// Depth is the current call depth below the API call; DepthSeen the
	// maximum observed since it was last reset.
	Depth     int
	DepthSeen int
	// Yield, when non-nil, is the simulated scheduler: it may hand the turn
	// to another task before returning.
	Yield func(site string, kind int)
	// TrackDepth is false in scheduler mode, where several tasks interleave
	// and a single depth counter is meaningless.
	TrackDepth = true
)

// Enter is called at every function entry.
//
//go:norace
func Enter(site string) {
	if !Active {
		return
	}
	Ticks++
	if TickBudget != 0 && Ticks > TickBudget {
		panic(Overrun{"ticks", site})
	}
	if TrackDepth {
		if MaxDepth != 0 && Depth+1 > MaxDepth {
			panic(Overrun{"depth", site})
		}
		Depth++
		if Depth > DepthSeen {
			DepthSeen = Depth
		}
	}
	if Yield != nil {
		Yield(site, YieldTick)
	}
}

// Leave is deferred at every function entry.
//
//go:norace
func Leave() {
	if Active && TrackDepth {
		Depth--
	}
}

// Tick is called at every loop head.
//
//go:norace
func Tick(site string) {
	if !Active {
		return
	}
	Ticks++
	if TickBudget != 0 && Ticks > TickBudget {
		panic(Overrun{"ticks", site})
	}
	if Yield != nil {
		Yield(site, YieldTick)
	}
}

// ---------------------------------------------------------------------------
// R2: locks.  In scheduler mode a task never parks in the Go runtime: it
// yields its turn until TryLock succeeds.  TryLock and Lock have the same
// acquire semantics for the race detector.

func MuLock(site string, m *sync.Mutex) {
	if Yield == nil {
		m.Lock()
		return
	}
	Yield(site, YieldLock)
	for !m.TryLock() {
		Yield(site, YieldBlocked)
	}
}

func MuUnlock(site string, m *sync.Mutex) {
	m.Unlock()
	if Yield != nil {
		Yield(site, YieldUnlock)
	}
}

func RWLock(site string, m *sync.RWMutex) {
	if Yield == nil {
		m.Lock()
		return
	}
	Yield(site, YieldLock)
	for !m.TryLock() {
		Yield(site, YieldBlocked)
	}
}

func RWUnlock(site string, m *sync.RWMutex) {
	m.Unlock()
	if Yield != nil {
		Yield(site, YieldUnlock)
	}
}

func RWRLock(site string, m *sync.RWMutex) {
	if Yield == nil {
		m.RLock()
		return
	}
	Yield(site, YieldLock)
	for !m.TryRLock() {
		Yield(site, YieldBlocked)
	}
}

func RWRUnlock(site string, m *sync.RWMutex) {
	m.RUnlock()
	if Yield != nil {
		Yield(site, YieldUnlock)
	}
}

// ---------------------------------------------------------------------------
// R4: file system

// FileSystem is the simulated disk.
type FileSystem interface {
	ReadFile(name string) ([]byte, error)
	ReadDir(name string) ([]fs.FileInfo, error)
	Stat(name string) (fs.FileInfo, error)
}

// FS, when non-nil, replaces the real disk for every redirected call.
var FS FileSystem

func IoutilReadFile(name string) ([]byte, error) {
	if FS != nil {
		return FS.ReadFile(name)
	}
	return ioutil.ReadFile(name)
}

func IoutilReadDir(name string) ([]fs.FileInfo, error) {
	if FS != nil {
		return FS.ReadDir(name)
	}
	return ioutil.ReadDir(name)
}

func OsReadFile(name string) ([]byte, error) {
	if FS != nil {
		return FS.ReadFile(name)
	}
	return os.ReadFile(name)
}

func OsReadDir(name string) ([]os.DirEntry, error) {
	if FS != nil {
		fis, err := FS.ReadDir(name)
		if err != nil {
			return nil, err
		}
		out := make([]os.DirEntry, len(fis))
		for i, fi := range fis {
			out[i] = fs.FileInfoToDirEntry(fi)
		}
		return out, nil
	}
	return os.ReadDir(name)
}

func OsStat(name string) (fs.FileInfo, error) {
	if FS != nil {
		return FS.Stat(name)
	}
	return os.Stat(name)
}

func OsLstat(name string) (fs.FileInfo, error) {
	if FS != nil {
		return FS.Stat(name)
	}
	return os.Lstat(name)
}
