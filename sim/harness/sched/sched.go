// Package sched is the simulated scheduler behind seams R2/R3 for C19.
//
// Caller tasks are real goroutines running the real, instrumented, -race built
// library.  Exactly one task holds the turn; at a yield point the running task
// draws from the seeded stream whether to keep going or to hand the turn to
// another runnable task.  The hand-off uses plain variables inside
// //go:norace functions plus runtime.Gosched() under GOMAXPROCS=1, so the
// scheduler adds no happens-before edge: the race detector sees exactly the
// synchronisation the library performs.  Nothing in this file may call
// instrumented code or use sync primitives on the hand-off path.
package sched

import (
	"runtime"
	"sync"

	"github.com/openconfig/goyang/pkg/zzsim"
)

// Config selects one schedule.
type Config struct {
	Seed uint64
	// TickSwitch: at a tick yield (function entry / loop head) switch with
	// probability 1/TickSwitch; 0 = never (only lock points offer a switch).
	TickSwitch int
	// MaxSteps bounds the number of yield decisions (bounded progress).
	MaxSteps uint64
}

// Stats is what a schedule did.
type Stats struct {
	Yields     uint64 // yield points reached
	Decisions  uint64 // points at which a choice was drawn
	Switches   uint64
	LockYields uint64
	Blocked    uint64 // yields because a lock was not available
	Hash       uint64 // hash of the pick trace
	NoProgress bool   // every runnable task kept failing to take a lock
	OutOfSteps bool
	HeldSwitch uint64 // switches away from a task at an unlock/lock point
}

type state struct {
	n          int
	turn       int
	done       []bool
	rng        uint64
	cfg        Config
	st         Stats
	blockedRun uint64
	abort      bool
}

var cur *state

//go:norace
func (s *state) next() uint64 {
	s.rng += 0x9e3779b97f4a7c15
	x := s.rng
	x = (x ^ (x >> 30)) * 0xbf58476d1ce4e5b9
	x = (x ^ (x >> 27)) * 0x94d049bb133111eb
	return x ^ (x >> 31)
}

//go:norace
func (s *state) pick(exclude int) int {
	// choose uniformly among the tasks that are not done (exclude = -1: any)
	cnt := 0
	for i := 0; i < s.n; i++ {
		if !s.done[i] && i != exclude {
			cnt++
		}
	}
	if cnt == 0 {
		return -1
	}
	k := int(s.next() % uint64(cnt))
	for i := 0; i < s.n; i++ {
		if !s.done[i] && i != exclude {
			if k == 0 {
				return i
			}
			k--
		}
	}
	return -1
}

//go:norace
func waitTurn(s *state, id int) {
	for s.turn != id && !s.abort {
		runtime.Gosched()
	}
}

//go:norace
func yield(site string, kind int) {
	s := cur
	if s == nil || s.abort {
		return
	}
	self := s.turn
	s.st.Yields++
	switch kind {
	case zzsim.YieldTick:
		if s.cfg.TickSwitch <= 0 {
			return
		}
		s.st.Decisions++
		if s.next()%uint64(s.cfg.TickSwitch) != 0 {
			return
		}
	case zzsim.YieldBlocked:
		s.st.Blocked++
		s.blockedRun++
		if s.blockedRun > 200000 {
			s.st.NoProgress = true
			s.abort = true
			return
		}
	default:
		s.st.LockYields++
		s.blockedRun = 0
	}
	if kind == zzsim.YieldTick {
		s.blockedRun = 0
	}
	if s.cfg.MaxSteps != 0 && s.st.Decisions > s.cfg.MaxSteps {
		s.st.OutOfSteps = true
		s.abort = true
		return
	}
	s.st.Decisions++
	var nxt int
	if kind == zzsim.YieldBlocked {
		nxt = s.pick(self)
		if nxt < 0 {
			nxt = self // nobody else can run: spin (a lock held by a finished task would be a bug)
		}
	} else {
		nxt = s.pick(-1)
	}
	s.st.Hash = (s.st.Hash ^ uint64(nxt+1)) * 1099511628211
	if nxt == self || nxt < 0 {
		return
	}
	s.st.Switches++
	if kind == zzsim.YieldLock || kind == zzsim.YieldUnlock {
		s.st.HeldSwitch++
	}
	s.turn = nxt
	waitTurn(s, self)
}

//go:norace
func finish(s *state, id int) {
	s.done[id] = true
	nxt := s.pick(-1)
	if nxt >= 0 {
		s.turn = nxt
	} else {
		s.turn = -1
	}
}

//go:norace
func start(s *state) {
	cur = s
	s.turn = s.pick(-1)
}

//go:norace
func stop() Stats {
	s := cur
	cur = nil
	if s == nil {
		return Stats{}
	}
	return s.st
}

// Run executes the tasks under the schedule cfg and returns what the scheduler
// did.  Task results must be written to task-private memory; Run returns after
// every task has finished (a WaitGroup orders task ends before the return,
// which adds no edge between tasks while they run).
func Run(cfg Config, tasks []func()) Stats {
	s := &state{n: len(tasks), done: make([]bool, len(tasks)), rng: cfg.Seed, cfg: cfg, turn: -2}
	zzsim.Yield = yield
	zzsim.TrackDepth = false
	var wg sync.WaitGroup
	for i, f := range tasks {
		wg.Add(1)
		go func(id int, f func()) {
			defer wg.Done()
			waitTurn(s, id)
			defer finish(s, id)
			f()
		}(i, f)
	}
	start(s)
	wg.Wait()
	st := stop()
	zzsim.Yield = nil
	zzsim.TrackDepth = true
	return st
}
