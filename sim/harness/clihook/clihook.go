// Package clihook installs the map-order oracle inside the instrumented goyang
// command when it is run as a child process by the simulator: the schedule is
// passed in the environment variable VERIF_MAPORDER as JSON.  The package is
// linked into the command only in the scratch copy (zz_clihook.go written by
// /verif/check); /repo is never touched.
package clihook

import (
	"encoding/json"
	"os"

	"github.com/openconfig/goyang/zzverif/maporder"
)

func init() {
	v := os.Getenv("VERIF_MAPORDER")
	if v == "" {
		return
	}
	var s maporder.Schedule
	if err := json.Unmarshal([]byte(v), &s); err != nil {
		os.Stderr.WriteString("clihook: bad VERIF_MAPORDER: " + err.Error() + "\n")
		os.Exit(97)
	}
	maporder.Install(&s, nil)
}
