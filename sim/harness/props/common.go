package props

import (
	"encoding/json"
	"fmt"
	"regexp"
	"sort"
	"strconv"
	"strings"

	"github.com/openconfig/goyang/pkg/yang"
	"github.com/openconfig/goyang/zzverif/core"
	"github.com/openconfig/goyang/zzverif/dump"
	"github.com/openconfig/goyang/zzverif/maporder"
	"github.com/openconfig/goyang/zzverif/model"
	"github.com/openconfig/goyang/zzverif/tape"
	"github.com/openconfig/goyang/zzverif/world"
)

// allInvalid lists every invalid construct the generator knows.
var allInvalid = []string{
	model.InvAugMissing, model.InvAugLeaf, model.InvAugCollision, model.InvAugCollisionOwn, model.InvAugBadPrefix,
	model.InvUsesCycle, model.InvTypedefCycle, model.InvIdentityCycle,
	model.InvUnknownType, model.InvUnknownGrouping, model.InvUndefinedBase, model.InvDupSibling, model.InvDupUses,
	model.InvBadRange, model.InvBadConfig,
	model.InvDevMissing, model.InvDevAddDefault, model.InvDevDelDefault, model.InvDevDelOther,
	model.InvDevMinNonList, model.InvDevDelMin, model.InvDevBadType, model.InvDevUnknownKind, model.InvDevGone, model.InvDevDoubleNS, model.InvDevBadPrefix,
	model.InvFanoutChain,
}

// profGeneral mixes everything; used by C05, C18, C01 and the C04 rotation.
func profGeneral(t *tape.Tape) model.Profile {
	p := model.Profile{
		Mods: [2]int{1, 4}, Subs: [2]int{0, 2}, Typedefs: [2]int{0, 3}, Identities: [2]int{0, 3}, Groupings: [2]int{0, 3},
		TopNodes: [2]int{1, 4}, Augments: [2]int{0, 4}, Deviations: [2]int{0, 3}, DevMods: [2]int{1, 2}, Depth: 3,
		Invalid: allInvalid, InvalidPct: 6, MaxInvalid: 2, OrderTraps: true, Extras: true,
	}
	// swarm: switch statement families off per run
	if t.Chance(1, 4) {
		p.Subs = [2]int{0, 0}
	}
	if t.Chance(1, 4) {
		p.Augments = [2]int{0, 0}
	}
	if t.Chance(1, 3) {
		p.Deviations = [2]int{0, 0}
	}
	if t.Chance(1, 2) {
		p.MaxInvalid = 0
	}
	if t.Chance(1, 5) {
		p.NoRPC = true
	}
	if t.Chance(1, 5) {
		p.NoChoice = true
	}
	if t.Chance(1, 6) {
		p.UsesHeavy = true
	}
	if t.Chance(1, 3) {
		p.PrefixTraps = true
	}
	p.CrossDeviationTrap = true
	p.Posix = t.Sub("posix").Chance(1, 3)
	return p
}

// batchOutcome is the observable outcome of loading texts in an order and processing once.
type batchOutcome struct {
	Text    string // canonical text of the outcome (load errors, then process errors or full dump)
	Errs    []string
	Clean   bool
	Crashed bool
	Frame   string
	Res     *world.Result
}

// runBatch loads texts (by name, in order) into a fresh Modules under sched and processes once.
func runBatch(texts map[string]string, order []string, sched *maporder.Schedule, opts world.Options) *batchOutcome {
	return runBatchOp(texts, order, sched, opts, world.Op{Op: "process"})
}

// runBatchOps runs the given load operations (parse / read from the given
// simulated disk) on a fresh Modules, then the final operation.
func runBatchOps(texts, disk map[string]string, loads []world.Op, sched *maporder.Schedule, opts world.Options, final world.Op) *batchOutcome {
	spec := &world.Spec{Texts: texts, Disk: disk, Sched: sched, Options: opts}
	spec.Ops = append(spec.Ops, loads...)
	spec.Ops = append(spec.Ops, final)
	return outcomeOf(world.Exec(spec))
}

// runBatchOp is runBatch with another final operation (process or getmodule).
func runBatchOp(texts map[string]string, order []string, sched *maporder.Schedule, opts world.Options, final world.Op) *batchOutcome {
	spec := &world.Spec{Texts: texts, Sched: sched, Options: opts}
	for _, n := range order {
		spec.Ops = append(spec.Ops, world.Op{Op: "parse", Name: n})
	}
	spec.Ops = append(spec.Ops, final)
	res := world.Exec(spec)
	return outcomeOf(res)
}

func outcomeOf(res *world.Result) *batchOutcome {
	bo := &batchOutcome{Res: res}
	var sb strings.Builder
	for _, r := range res.Ops {
		if r.Panic != "" || r.Overrun != "" {
			bo.Crashed = true
			bo.Frame = r.Frame
			if r.Overrun != "" {
				fmt.Fprintf(&sb, "%s %s: OVERRUN %s\n", r.Op.Op, r.Op.Name, r.Overrun)
			} else {
				fmt.Fprintf(&sb, "%s %s: PANIC %s in %s\n", r.Op.Op, r.Op.Name, r.Panic, r.Frame)
			}
			continue
		}
		switch r.Op.Op {
		case "parse", "read":
			if r.Err != "" {
				fmt.Fprintf(&sb, "load %s: error: %s\n", r.Op.Name, r.Err)
			}
		case "process", "getmodule":
			bo.Errs = r.Errs
			if len(r.Errs) > 0 {
				for i, e := range r.Errs {
					fmt.Fprintf(&sb, "process error[%d]: %s\n", i, e)
				}
			} else {
				bo.Clean = true
				sb.WriteString(r.Dump)
			}
		}
	}
	bo.Text = sb.String()
	return bo
}

// firstDiff describes where two canonical texts first differ.
func firstDiff(a, b string) string {
	la, lb := strings.Split(a, "\n"), strings.Split(b, "\n")
	for i := 0; i < len(la) || i < len(lb); i++ {
		var x, y string
		if i < len(la) {
			x = la[i]
		} else {
			x = "<end>"
		}
		if i < len(lb) {
			y = lb[i]
		} else {
			y = "<end>"
		}
		if x != y {
			return fmt.Sprintf("line %d:\n  canonical: %s\n  this run : %s", i+1, trunc(x, 600), trunc(y, 600))
		}
	}
	return "(no difference)"
}

func trunc(s string, n int) string {
	if len(s) > n {
		return s[:n] + "…"
	}
	return s
}

var posRe = regexp.MustCompile(`^([^:\s]+):(\d+):(\d+): `)

// checkErrorOrder verifies that positioned errors come back ordered by file,
// line and column and that no error string occurs twice.
func checkErrorOrder(errs []string) string {
	seen := map[string]bool{}
	for _, e := range errs {
		if seen[e] {
			return fmt.Sprintf("duplicate error in the returned list: %q", e)
		}
		seen[e] = true
	}
	type pos struct {
		file      string
		line, col int
	}
	var prev *pos
	var prevText string
	for _, e := range errs {
		m := posRe.FindStringSubmatch(e)
		if m == nil {
			continue
		}
		l, _ := strconv.Atoi(m[2])
		c, _ := strconv.Atoi(m[3])
		p := &pos{m[1], l, c}
		if prev != nil {
			if p.file < prev.file || (p.file == prev.file && (p.line < prev.line || (p.line == prev.line && p.col < prev.col))) {
				return fmt.Sprintf("errors not ordered by file:line:col: %q comes before %q", prevText, e)
			}
		}
		prev, prevText = p, e
	}
	return ""
}

// schedShrinks proposes simpler schedules: all canonical, then each
// non-sorted site set back to sorted (the surviving sites are the culprits),
// then shuffle replaced by reversed.
func schedShrinks(s *maporder.Schedule) []*maporder.Schedule {
	var out []*maporder.Schedule
	if s == nil {
		return nil
	}
	// make the default explicit first so that single sites can be reset
	if s.Default != "" && s.Default != maporder.Sorted {
		n := s.Clone()
		if n.Sites == nil {
			n.Sites = map[string]string{}
		}
		for _, id := range maporder.MapSites() {
			if _, ok := n.Sites[id]; !ok {
				n.Sites[id] = s.Default
			}
		}
		n.Default = maporder.Sorted
		return []*maporder.Schedule{n}
	}
	var ids []string
	for id, m := range s.Sites {
		if m != maporder.Sorted {
			ids = append(ids, id)
		}
	}
	sort.Strings(ids)
	// halves first
	if len(ids) > 3 {
		for _, half := range [][]string{ids[:len(ids)/2], ids[len(ids)/2:]} {
			n := s.Clone()
			for _, id := range half {
				delete(n.Sites, id)
			}
			out = append(out, n)
		}
	}
	for _, id := range ids {
		n := s.Clone()
		delete(n.Sites, id)
		out = append(out, n)
	}
	for _, id := range ids {
		if s.Sites[id] != maporder.Reversed {
			n := s.Clone()
			n.Sites[id] = maporder.Reversed
			out = append(out, n)
		}
	}
	return out
}

// culpritSites lists the non-sorted sites of a (minimised) schedule.
func culpritSites(s *maporder.Schedule) []string {
	if s == nil {
		return nil
	}
	var ids []string
	if s.Default != "" && s.Default != maporder.Sorted {
		ids = append(ids, "site:*")
	}
	for id, m := range s.Sites {
		if m != maporder.Sorted {
			ids = append(ids, "site:"+id)
		}
	}
	sort.Strings(ids)
	return ids
}

func addRecorder(o *core.Outcome, rec *maporder.Recorder) {
	if rec == nil {
		return
	}
	for site, n := range rec.NonCanon {
		o.Count("site."+site, n)
	}
	o.Sched = tape.MixN(o.Sched, rec.Hash)
}

func sortedNames(m map[string]string) []string {
	var out []string
	for k := range m {
		out = append(out, k)
	}
	sort.Strings(out)
	return out
}

func permuted(t *tape.Tape, names []string) []string {
	p := t.Perm(len(names))
	out := make([]string, len(names))
	for i, j := range p {
		out[i] = names[j]
	}
	return out
}

// ProfileByName exposes the generator profiles to developer tools.
func ProfileByName(name string, t *tape.Tape) model.Profile {
	switch name {
	case "general":
		return profGeneral(t)
	case "valid":
		p := profGeneral(t)
		p.MaxInvalid = 0
		return p
	}
	if f, ok := profiles[name]; ok {
		return f(t)
	}
	return profGeneral(t)
}

var profiles = map[string]func(*tape.Tape) model.Profile{}

// refCompare compares the structural view of every module tree of a clean
// Process with the reference compilation of the scenario.  It returns "" when
// they agree, else a description of the first differences.
func refCompare(ms *yang.Modules, s *model.Scenario, cp *model.Compiled) string {
	nsOf := map[string]string{}
	for _, m := range s.Mods {
		if !m.IsSub() {
			nsOf[m.Name] = m.NS
		}
	}
	opts := model.CanonOpts{NSOf: nsOf}
	var sb strings.Builder
	for _, m := range s.Mods {
		if m.IsSub() {
			continue
		}
		want := cp.Trees[m.Name]
		mod := ms.Modules[m.Name]
		if mod == nil {
			fmt.Fprintf(&sb, "module %s: not in the module set\n", m.Name)
			continue
		}
		got := dump.ToX(yang.ToEntry(mod), nil)
		got.NSMod = m.NS
		wl := model.Canon(want, opts)
		gl := model.Canon(got, model.CanonOpts{})
		if strings.Join(wl, "\n") != strings.Join(gl, "\n") {
			fmt.Fprintf(&sb, "module %s:\n%s", m.Name, model.DiffLines(wl, gl, 6))
		}
	}
	return sb.String()
}

// RefCompare exposes refCompare to developer tools.
func RefCompare(ms *yang.Modules, s *model.Scenario, cp *model.Compiled) string {
	return refCompare(ms, s, cp)
}

// noRevPair reports whether some module name occurs both with and without a
// revision in the scenario: the input class of open finding C13-norev, which is
// left out of every other driver's runs.
func noRevPair(s *model.Scenario) bool {
	if s == nil {
		return false
	}
	with, without := map[string]bool{}, map[string]bool{}
	for _, m := range s.Mods {
		if len(m.Revs) > 0 {
			with[m.Name] = true
		} else {
			without[m.Name] = true
		}
	}
	for n := range with {
		if without[n] {
			return true
		}
	}
	return false
}

// addOlderRevision (with probability 1/den) turns one module of the scenario
// into revision 2021-05-05 and adds an older revision 2019-03-03 of it that
// differs: an extra leaf, possibly one identity less, its first typedef based
// on another built-in type.  Some importers are pinned to the older revision
// with a revision-date.  It returns the module name, or "".
func addOlderRevision(rt *tape.Tape, s *model.Scenario, den int) string {
	return addOlderRevisionOpt(rt, s, den, false)
}

const olderRev, newerRev = "2019-03-03", "2021-05-05"

// addOlderRevisionOpt is addOlderRevision; with same set, the older revision
// has the definitions (typedefs, groupings, identities) of the newer one
// unchanged, and only importers that neither augment nor deviate the module
// are pinned, so that the trees of all latest revisions equal those of the
// scenario without the older revision.
func addOlderRevisionOpt(rt *tape.Tape, s *model.Scenario, den int, same bool) string {
	return addOlderRevisionInc(rt, s, den, same, false)
}

// addOlderRevisionInc is addOlderRevisionOpt; with includesToo a module that
// includes submodules may be chosen as well (the input class of open finding
// C05-tworev-sub).
func addOlderRevisionInc(rt *tape.Tape, s *model.Scenario, den int, same, includesToo bool, keepAugments ...bool) string {
	if !rt.Chance(1, den) {
		return ""
	}
	var cand []*model.Mod
	for _, m := range s.Mods {
		if !m.IsSub() && (len(m.Includes) == 0 || includesToo) && len(m.Deviations) == 0 && len(m.Revs) == 0 && m.Name != model.PosixModule {
			cand = append(cand, m)
		}
	}
	if len(cand) == 0 {
		return ""
	}
	m := cand[rt.Intn(len(cand))]
	m.Revs = []string{newerRev}
	b, _ := json.Marshal(m)
	older := &model.Mod{}
	json.Unmarshal(b, older)
	older.Revs = []string{olderRev}
	if len(keepAugments) == 0 || !keepAugments[0] {
		// (with keepAugments both revisions augment the same targets with the
		// same nodes: a collision whose report must not depend on any order;
		// only for comparisons of the library with itself)
		older.Augments = nil
	}
	older.Body = append(older.Body, &model.Node{Kind: model.KLeaf, Name: "only-in-older-revision", Type: &model.Type{Ref: model.Ref{Name: "string"}}})
	if !same {
		if len(older.Identities) > 0 && rt.Chance(1, 2) {
			older.Identities = older.Identities[:len(older.Identities)-1]
		}
		if len(older.Typedefs) > 0 {
			td := older.Typedefs[0]
			td.Type = &model.Type{Ref: model.Ref{Name: []string{"int32", "boolean", "uint8"}[rt.Intn(3)]}}
			td.Default = ""
		}
	}
	// importers pinned to the older revision
	pt := rt.Sub("pins")
	for _, b := range s.Mods {
		if b.Name == m.Name || b.Owner() == m.Name {
			continue
		}
		imports := false
		for _, x := range model.Imports(s, b) {
			if x == m.Name {
				imports = true
			}
		}
		if !imports || !pt.Chance(1, 2) {
			continue
		}
		if same && targets(s, b, m.Name) {
			continue
		}
		if b.ImportRev == nil {
			b.ImportRev = map[string]string{}
		}
		b.ImportRev[m.Name] = olderRev
	}
	s.Mods = append(s.Mods, older)
	return m.Name
}

// targets reports whether an augment or deviation of b has a path step in
// module mod's namespace.
func targets(s *model.Scenario, b *model.Mod, mod string) bool {
	hit := func(steps []model.Step) bool {
		for _, st := range steps {
			if st.Mod == mod {
				return true
			}
			if x := s.Mod(st.Mod); x != nil && x.Owner() == mod {
				return true
			}
		}
		return false
	}
	for _, a := range b.Augments {
		if hit(a.Target) {
			return true
		}
	}
	for _, d := range b.Deviations {
		if hit(d.Target) {
			return true
		}
	}
	return false
}

// latestOnly returns the scenario as the reference model sees it: of several
// revisions of a module only the latest, imports not pinned.  It returns s
// itself when no module name occurs twice.
func latestOnly(s *model.Scenario) *model.Scenario {
	latest := map[string]string{}
	dup := false
	for _, m := range s.Mods {
		if r, ok := latest[m.Name]; ok {
			dup = true
			if m.LatestRev() > r {
				latest[m.Name] = m.LatestRev()
			}
		} else {
			latest[m.Name] = m.LatestRev()
		}
	}
	if !dup {
		return s
	}
	n := s.Clone()
	var mods []*model.Mod
	for _, m := range n.Mods {
		if m.LatestRev() != latest[m.Name] {
			continue
		}
		m.ImportRev = nil
		mods = append(mods, m)
	}
	n.Mods = mods
	return n
}

var (
	reModuleHead = regexp.MustCompile(`(?m)^\s*module\s+([^\s{;]+)`)
	reInclude    = regexp.MustCompile(`(?m)^\s*include\s+([^\s{;]+)`)
)

// twoRevsOneSub reports whether two of the texts are modules of the same name
// that include the same submodule: the input class of open finding
// C05-tworev-sub (the submodule's nodes land in whichever revision is
// converted first).
func twoRevsOneSub(texts map[string]string) bool {
	incs := map[string]map[string]int{}
	for _, t := range texts {
		m := reModuleHead.FindStringSubmatch(t)
		if m == nil {
			continue
		}
		if incs[m[1]] == nil {
			incs[m[1]] = map[string]int{}
		}
		seen := map[string]bool{}
		for _, i := range reInclude.FindAllStringSubmatch(t, -1) {
			if !seen[i[1]] {
				seen[i[1]] = true
				incs[m[1]][i[1]]++
			}
		}
	}
	for _, subs := range incs {
		for _, n := range subs {
			if n > 1 {
				return true
			}
		}
	}
	return false
}

const inputTwoRevsOneSub = "input:two-revisions-including-one-submodule"
