package props

import (
	"fmt"
	"sort"
	"strings"

	"github.com/openconfig/goyang/pkg/yang"
	"github.com/openconfig/goyang/zzverif/core"
	"github.com/openconfig/goyang/zzverif/dump"
	"github.com/openconfig/goyang/zzverif/maporder"
	"github.com/openconfig/goyang/zzverif/model"
	"github.com/openconfig/goyang/zzverif/tape"
	"github.com/openconfig/goyang/zzverif/world"
)

var commonReal = []string{"lexer", "parser", "AST builder", "Process (include/import binding, identity and typedef resolution)", "ToEntry / merge / dup / FixChoice / Augment / ApplyDeviate", "Entry accessors (Namespace, InstantiatingModule, ReadOnly)"}
var commonStub = []string{"Go map iteration order (seeded oracle at every rewritten range site)", "order of load calls (seeded)", "history shape (batch / re-Process / incremental load; seeded)", "disk (empty simulated disk)"}

// ---------------------------------------------------------------------------
// C07 augments

func profC07(t *tape.Tape) model.Profile {
	p := model.Profile{
		PrefixTraps: t.Chance(1, 3), Posix: t.Sub("posix").Chance(1, 4),
		Mods: [2]int{2, 5}, Subs: [2]int{0, 3}, Typedefs: [2]int{0, 2}, Identities: [2]int{0, 1}, Groupings: [2]int{0, 3},
		TopNodes: [2]int{1, 4}, Augments: [2]int{1, 10}, Deviations: [2]int{0, 0}, Depth: 3,
		Invalid: []string{model.InvAugMissing, model.InvAugLeaf, model.InvAugCollision, model.InvAugCollisionOwn, model.InvAugBadPrefix, model.InvDupUses}, InvalidPct: 8, MaxInvalid: 1,
		OrderTraps: true, Extras: t.Chance(1, 2),
		// at most one augment per scenario whose path runs through an implicit
		// case (it finds its target only after implicit-case insertion)
		LateAugments: t.Sub("late").Chance(1, 4),
	}
	if t.Chance(3, 5) {
		p.MaxInvalid = 0
	}
	if t.Chance(1, 4) {
		p.UsesHeavy = true
	}
	return p
}

func augmentCount(s *model.Scenario) int {
	n := 0
	for _, m := range s.Mods {
		n += len(m.Augments)
	}
	return n
}

// ---------------------------------------------------------------------------
// C06 uses

func profC06(t *tape.Tape) model.Profile {
	p := model.Profile{
		PrefixTraps: t.Chance(1, 3), Posix: t.Sub("posix").Chance(1, 4),
		Mods: [2]int{1, 4}, Subs: [2]int{0, 2}, Typedefs: [2]int{1, 3}, Identities: [2]int{0, 2}, Groupings: [2]int{2, 5},
		TopNodes: [2]int{2, 5}, Augments: [2]int{0, 3}, Deviations: [2]int{0, 4}, DevMods: [2]int{1, 2}, Depth: 4,
		Invalid: []string{model.InvUnknownGrouping, model.InvUsesCycle, model.InvDupUses}, InvalidPct: 5, MaxInvalid: 1,
		UsesHeavy: true, Extras: t.Chance(1, 3),
	}
	if t.Chance(4, 5) {
		p.MaxInvalid = 0
	}
	return p
}

func usesCount(s *model.Scenario) (uses int, reused bool) {
	cnt := map[model.Ref]int{}
	for _, m := range s.Mods {
		m.AllBodies(func(body []*model.Node) {
			model.WalkNodes(body, func(n *model.Node, _ *model.Node) {
				if n.Kind == model.KUses && n.Uses != nil {
					uses++
					cnt[*n.Uses]++
				}
			})
		})
	}
	for _, c := range cnt {
		if c > 1 {
			reused = true
		}
	}
	return
}

// ---------------------------------------------------------------------------
// C08 deviations

func profC08(t *tape.Tape) model.Profile {
	p := model.Profile{
		PrefixTraps: t.Chance(1, 3), Posix: t.Sub("posix").Chance(1, 4),
		Mods: [2]int{1, 3}, Subs: [2]int{0, 1}, Typedefs: [2]int{0, 2}, Identities: [2]int{0, 1}, Groupings: [2]int{0, 2},
		TopNodes: [2]int{2, 5}, Augments: [2]int{0, 2}, Deviations: [2]int{1, 6}, DevMods: [2]int{1, 3}, Depth: 3,
		Invalid:    []string{model.InvDevMissing, model.InvDevAddDefault, model.InvDevDelDefault, model.InvDevDelOther, model.InvDevMinNonList, model.InvDevDelMin, model.InvDevBadType, model.InvDevUnknownKind, model.InvDevGone, model.InvDevDoubleNS, model.InvDevBadPrefix},
		InvalidPct: 10, MaxInvalid: 1, OrderTraps: true, Extras: t.Chance(1, 3),
	}
	if t.Chance(3, 5) {
		p.MaxInvalid = 0
	}
	return p
}

func deviationCount(s *model.Scenario) int {
	n := 0
	for _, m := range s.Mods {
		n += len(m.Deviations)
	}
	return n
}

// c08Frame is the model-independent frame condition: the same modules without
// the deviating modules yield trees that differ from the deviated trees only
// at (or below a removed) deviation target.
func c08Frame(c *refCase, ms *yang.Modules, cp *model.Compiled, o *core.Outcome, exec string) bool {
	s := c.scenario()
	texts := c.texts()
	base := map[string]string{}
	for n, t := range texts {
		m := s.Mod(strings.SplitN(strings.TrimSuffix(n, ".yang"), "@", 2)[0])
		if m != nil && len(m.Deviations) > 0 && len(m.Body) == 0 {
			continue
		}
		base[n] = t
	}
	if len(base) == len(texts) {
		return true
	}
	a := runBatch(base, sortedNames(base), maporder.Canonical(), c.Options)
	o.Ticks += a.Res.Ticks
	if !a.Clean {
		// the base set alone is not clean (should not happen for a valid scenario)
		o.Count("probe.frame_base_not_clean", 1)
		return true
	}
	// deviation targets as module:/path
	targets := map[string]bool{}
	for _, m := range s.Mods {
		for _, d := range m.Deviations {
			if len(d.Target) == 0 {
				continue
			}
			first := s.Mod(d.Target[0].Mod)
			if first == nil {
				continue
			}
			p := ""
			for _, st := range d.Target {
				p += "/" + st.Name
			}
			targets[first.Owner()+":"+p] = true
		}
	}
	covered := func(mod, line string) bool {
		path := line
		if i := strings.Index(line, ": "); i > 0 {
			path = line[:i]
		}
		for t := range targets {
			if !strings.HasPrefix(t, mod+":") {
				continue
			}
			tp := t[len(mod)+1:]
			if path == tp || strings.HasPrefix(path, tp+"/") {
				return true
			}
		}
		return false
	}
	opts := model.CanonOpts{NoRO: true}
	for _, m := range s.Mods {
		if m.IsSub() {
			continue
		}
		ma, mb := a.Res.MS.Modules[m.Name], ms.Modules[m.Name]
		if ma == nil || mb == nil {
			continue
		}
		la := model.Canon(dump.ToX(yang.ToEntry(ma), nil), opts)
		lb := model.Canon(dump.ToX(yang.ToEntry(mb), nil), opts)
		inA := map[string]bool{}
		inB := map[string]bool{}
		for _, l := range la {
			inA[l] = true
		}
		for _, l := range lb {
			inB[l] = true
		}
		for _, l := range la {
			if !inB[l] && !covered(m.Name, l) {
				o.Fail("frame-violated", "%s: a node that no deviation targets differs from the tree without the deviating modules (module %s):\n  without: %s", exec, m.Name, l)
				return false
			}
		}
		for _, l := range lb {
			if !inA[l] && !covered(m.Name, l) {
				o.Fail("frame-violated", "%s: a node that no deviation targets differs from the tree without the deviating modules (module %s):\n  with   : %s", exec, m.Name, l)
				return false
			}
		}
	}
	o.Count("probe.frame_checked", 1)
	return true
}

// ---------------------------------------------------------------------------
// C11 identities

func profC11(t *tape.Tape) model.Profile {
	p := model.Profile{
		PrefixTraps: t.Chance(1, 3), Posix: t.Sub("posix").Chance(1, 4),
		Mods: [2]int{1, 5}, Subs: [2]int{0, 3}, Typedefs: [2]int{0, 2}, Identities: [2]int{1, 6}, Groupings: [2]int{0, 1},
		TopNodes: [2]int{1, 3}, Augments: [2]int{0, 1}, Deviations: [2]int{0, 0}, Depth: 2,
		Invalid: []string{model.InvIdentityCycle, model.InvUndefinedBase}, InvalidPct: 25, MaxInvalid: 1, OrderTraps: true,
	}
	if t.Chance(3, 5) {
		p.MaxInvalid = 0
	}
	return p
}

func identityStats(s *model.Scenario) (ids, edges int) {
	for _, m := range s.Mods {
		ids += len(m.Identities)
		for _, id := range m.Identities {
			edges += len(id.Bases)
		}
	}
	return
}

func c11Extra(c *refCase, ms *yang.Modules, cp *model.Compiled, o *core.Outcome, exec string) bool {
	known := map[*yang.Identity]bool{}
	for _, set := range []map[string]*yang.Module{ms.Modules, ms.SubModules} {
		for _, m := range dump.DistinctModules(set) {
			if set[m.Name] != m {
				// an older revision: the identities reported under a name are
				// those of the latest revision
				continue
			}
			e := yang.ToEntry(m)
			for _, id := range e.Identities {
				known[id] = true
				key := dump.OwnerName(id) + ":" + id.Name
				want, ok := cp.Identities[key]
				if !ok {
					o.Fail("identity-unknown-to-reference", "%s: identity %s is not in the reference graph", exec, key)
					return false
				}
				var got []string
				seen := map[string]bool{}
				for _, v := range id.Values {
					k := dump.OwnerName(v) + ":" + v.Name
					if k == key {
						o.Fail("identity-lists-itself", "%s: identity %s lists itself among its derived identities", exec, key)
						return false
					}
					if seen[k] {
						o.Fail("identity-listed-twice", "%s: identity %s lists %s twice: %v", exec, key, k, valueNames(id))
						return false
					}
					seen[k] = true
					got = append(got, k)
				}
				sort.Strings(got)
				if strings.Join(got, " ") != strings.Join(want, " ") {
					o.Fail("identity-closure", "%s: identity %s lists %v, the transitive closure of the base graph is %v", exec, key, got, want)
					return false
				}
				if len(want) >= 2 {
					o.Count("probe.identity_with_ge_2_derivations", 1)
				}
			}
		}
	}
	// every identityref points at an identity object of some module's list
	bad := ""
	var walkType func(t *yang.YangType, where string, depth int)
	walkType = func(t *yang.YangType, where string, depth int) {
		if t == nil || depth > 5 || bad != "" {
			return
		}
		if t.Kind == yang.Yidentityref {
			if t.IdentityBase == nil {
				bad = where + ": identityref without resolved base"
			} else if !known[t.IdentityBase] {
				bad = fmt.Sprintf("%s: identityref base %s is not one of the identity objects listed by the modules", where, t.IdentityBase.Name)
			} else {
				o.Count("probe.identityref_checked", 1)
			}
		}
		for _, u := range t.Type {
			walkType(u, where, depth+1)
		}
	}
	vis := map[*yang.Entry]bool{}
	var walk func(e *yang.Entry, d int)
	walk = func(e *yang.Entry, d int) {
		if e == nil || d > 100 || vis[e] {
			return
		}
		vis[e] = true
		walkType(e.Type, e.Path(), 0)
		for _, ch := range e.Dir {
			walk(ch, d+1)
		}
		if e.RPC != nil {
			walk(e.RPC.Input, d+1)
			walk(e.RPC.Output, d+1)
		}
	}
	for _, m := range dump.DistinctModules(ms.Modules) {
		walk(yang.ToEntry(m), 0)
	}
	if bad != "" {
		o.Fail("identityref-base", "%s: %s", exec, bad)
		return false
	}
	return true
}

func valueNames(id *yang.Identity) []string {
	var out []string
	for _, v := range id.Values {
		out = append(out, dump.OwnerName(v)+":"+v.Name)
	}
	return out
}

// ---------------------------------------------------------------------------

func init() {
	profiles["c06"], profiles["c07"], profiles["c08"], profiles["c11"] = profC06, profC07, profC08, profC11
	core.Register(&refDriver{
		id: "C07", quick: 10_000, thor: 300_000, profile: profC07,
		histories:  []int{5, 1, 2},
		nonTrivial: func(s *model.Scenario, cp *model.Compiled) bool { return cp.AugApplied > 0 },
		info: core.Info{
			Rule: "A case is a generated module set with 1-10 top-level augments (chains whose target is created by another augment, targets produced by uses, by a submodule, inside choice / explicit case / rpc input and output (declared and undeclared) / notification / list; augments written in submodules; uses inside augments; declaration order shuffled; optionally one invalid augment: missing target, leaf or leaf-list target, child-name collision between two augmenting modules or with an existing child) and 4-7 executions (load-order permutation x map-order schedule) under a batch, re-Process or incremental-load history, optionally with the textual order of the augment statements re-permuted. " +
				"Valid set: every execution must be clean and equal the reference graft (each target gains exactly one copy of each augment child; grafted subtrees carry the augmenting module's namespace and instantiating module; nothing else changes). Invalid set: every execution must report errors. All executions byte-equal. Non-trivial: at least one augment applied or an invalid augment reported. Distinct = distinct case descriptions.",
			Assumptions: []string{
				"using the implicit case of a shorthand choice member as target, and uses-augment, are outside the claim (as in the property) and are not generated",
				"the namespace of an implicit case wrapped around an augmented shorthand member is not compared",
				"error oracle is existential: 'reported' = non-empty error list",
			},
			Real: commonReal, Stub: commonStub,
		},
	})
	core.Register(&refDriver{
		id: "C06", quick: 5_000, thor: 150_000, profile: profC06, invariants: true,
		histories:  []int{3, 2, 2},
		nonTrivial: func(s *model.Scenario, cp *model.Compiled) bool { _, reused := usesCount(s); return reused },
		info: core.Info{
			Rule: "A case is a grouping-heavy module set (2-5 groupings per module, nested groupings and typedefs local to a grouping, groupings in submodules and imported modules, 2+ uses of the same grouping, actions/notifications/choices inside groupings), then 0-3 augments and 0-4 deviations aimed at single instances, under 4-7 executions (load order x map order) and a batch / re-Process / incremental-load history. " +
				"Every module tree must equal the reference expansion (names, kinds, types bound in the defining module, defaults, config, list attributes, nesting; namespace of the using module), instances not targeted stay un-mutated (the reference mutates only the targeted instance), and no node object is shared between two instances or with the cached grouping tree (pointer walk over all module and submodule trees). Non-trivial: some grouping is used at least twice. Distinct = distinct case descriptions.",
			Assumptions: []string{
				"refine and uses-augment are outside the claim and are not generated",
				"names are unique per scenario, so 'resolves in the scope where the grouping is defined' is decided by the reference following the grouping's own module; full scoping with shadowing is C09 (not applicable)",
			},
			Real: commonReal, Stub: commonStub,
		},
	})
	core.Register(&refDriver{
		id: "C08", quick: 12_000, thor: 400_000, profile: profC08, extra: c08Frame,
		histories:  []int{5, 1, 1},
		nonTrivial: func(s *model.Scenario, cp *model.Compiled) bool { return deviationCount(s) > 0 },
		info: core.Info{
			Rule: "A case is a base module set plus 1-3 deviating modules with 1-6 deviations of 1-3 deviate statements each (not-supported, add, replace, delete over config / default / mandatory / min-elements / max-elements / units / type; targets anywhere incl. grafted nodes, grouping instances, implicit-case members, lists, leaf-lists, choices; RFC-valid sequences such as delete-then-add; optionally one un-appliable deviation of the classes the property lists), options default / IgnoreDeviateNotSupported, under 4-7 executions (load order x map order). " +
				"Valid set: clean, equal to the reference application of RFC 7950 7.20.3 in written order, and (frame) every node no deviation targets is identical to the tree of the same modules without the deviating modules. Un-appliable deviation: errors in every execution. All executions byte-equal. Non-trivial: at least one deviation. Distinct = distinct case descriptions.",
			Assumptions: []string{
				"apart from the listed error classes, generated deviations are RFC-valid (add only of an absent property, replace/delete only of a present one): the property prescribes an error only for its listed classes",
				"at most one deviation per node: the property defines written order within one module only",
				"must/unique deviations are outside the claim",
				"the frame comparison ignores the inherited read-only flag (a config deviation on a container legitimately changes it below)",
			},
			Real: commonReal, Stub: commonStub,
		},
	})
	core.Register(&refDriver{
		id: "C11", quick: 15_000, thor: 500_000, profile: profC11, extra: c11Extra,
		histories: []int{3, 2, 2},
		nonTrivial: func(s *model.Scenario, cp *model.Compiled) bool {
			ids, edges := identityStats(s)
			return ids >= 3 && edges >= 1
		},
		info: core.Info{
			Rule: "In a fifth of the cases one module is loaded in two revisions (same definitions) with some importers pinned to the older one by revision-date; the reference model then sees the latest revision only and the identities reported under a name are those of its latest revision. A case is an identity graph of 1-30 identities over 1-5 modules and 0-3 submodules (diamonds, multiple bases, cross-module edges through import prefixes, equal names in different modules, identityref leaves and typedefs; optionally an undefined base or a derivation cycle of length 1-3) under 4-7 executions (load order x map order) and a batch / re-Process / incremental-load history. " +
				"Valid graph: every identity's value list equals the transitive closure of the base graph computed from the abstract scenario (each once, never itself), the sequence is identical in every execution and after re-Process / incremental load, and every identityref's base is one of the identity objects listed by the modules. Undefined base or cycle: errors in every execution, within the tick budget. Non-trivial: >= 3 identities and >= 1 base edge. Distinct = distinct case descriptions.",
			Assumptions: []string{
				"every generated submodule is included by its module (identities of a submodule nobody includes are deliberately not hoisted by the library)",
				"identity names are unique per owner module",
			},
			Real: commonReal, Stub: commonStub,
		},
	})
}

var _ = tape.New
var _ = world.Exec
