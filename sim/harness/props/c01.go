package props

import (
	"encoding/json"
	"fmt"
	"os"
	"path/filepath"
	"sort"
	"strings"

	"github.com/openconfig/goyang/zzverif/core"
	"github.com/openconfig/goyang/zzverif/fsim"
	"github.com/openconfig/goyang/zzverif/maporder"
	"github.com/openconfig/goyang/zzverif/model"
	"github.com/openconfig/goyang/zzverif/tape"
	"github.com/openconfig/goyang/zzverif/world"
)

// C01 — no crash, overflow or hang (the history / fault part of the property).
//
// Simulated: the disk holding the module files (faults: lost, unreadable,
// vanished, short, torn, bit-flipped, garbage, duplicated block, stale
// content), the history of load / process / read calls, map order, simulated
// time (ticks) and call depth.  Oracle: every call returns; no panic, no fatal
// error, no tick or depth overrun.  Returned errors are never inspected.

type c01Case struct {
	Scenario *model.Scenario    `json:"scenario,omitempty"`
	Bad      []badSpec          `json:"bad,omitempty"`
	Corpus   map[string]string  `json:"corpus,omitempty"` // fixed corpus texts (repo testdata), file name -> text
	OnDisk   []string           `json:"on_disk"`          // texts placed in lib/ on the simulated disk
	Faults   []fsim.Fault       `json:"faults,omitempty"`
	Sticky   bool               `json:"sticky,omitempty"`
	Path     []string           `json:"path,omitempty"`
	Ops      []world.Op         `json:"ops"`
	Sched    *maporder.Schedule `json:"sched"`
	Options  world.Options      `json:"options,omitempty"`
	Rendered map[string]string  `json:"rendered,omitempty"`
	// ReadAfterErrors: the trees are also read after a Process that returned
	// errors ("read access to whatever trees or errors come back").
	ReadAfterErrors bool `json:"read_after_errors,omitempty"`
}

func (c *c01Case) texts() map[string]string {
	if len(c.Rendered) > 0 {
		return c.Rendered
	}
	out := map[string]string{}
	var good map[string]string
	if c.Scenario != nil {
		good = model.RenderAll(c.Scenario)
	} else {
		good = map[string]string{}
	}
	for k, v := range c.Corpus {
		good[k] = v
	}
	for k, v := range good {
		out[k] = v
	}
	for _, b := range c.Bad {
		if t, ok := derive(good, b); ok {
			out[b.Name] = t
		}
	}
	return out
}

type c01Driver struct{}

func init() { core.Register(c01Driver{}) }

func (c01Driver) ID() string { return "C01" }

func (c01Driver) Tier(t string) core.Tier {
	if t == "thorough" {
		return core.Tier{Runs: 1_500_000, AnnounceEvery: 1}
	}
	return core.Tier{Runs: 60_000, AnnounceEvery: 1}
}

func (c01Driver) Info() core.Info {
	return core.Info{
		Rule: "In half of the cases the trees are also read after a Process that returned errors (never after a load that has not been processed). A case is a module set (generated, incl. deliberately cyclic / dangling / colliding constructs, or 1-4 files of the repository's testdata), derived damaged or rejected texts, a simulated disk holding a subset of them under lib/, a plan of storage faults at (path, occurrence), and a history of 2-12 operations over {Parse, Read, GetModule, Process, query walk (ToEntry, Find, GetErrors, Namespace, InstantiatingModule, ReadOnly, defaults, Print)} under a seeded map order. " +
			"Non-trivial: at least one fault fired or one load failed or the set was processed while incomplete. Distinct = distinct case descriptions.",
		Assumptions: []string{
			"crash-freedom over all byte strings is a pure-function claim outside this technique; this check reaches histories, incomplete sets and the fault neighbourhood (<= 8 faults, or 30-70 flipped bits in garbage mode) of generated-valid modules and of the repository's testdata",
			"simulated time: one tick per function entry and loop head of the instrumented library; budget 5e7 ticks and call depth 5000 per API call (measured need is below 1e6 ticks and depth 200)",
			"nesting deep enough to exhaust the parser's recursion needs inputs far larger than the 4 KiB files generated here",
		},
		Real:       []string{"lexer", "parser", "AST builder", "Modules (add, FindModule, findFile, findInDir)", "Process", "Entry code", "read API"},
		Stub:       []string{"disk (simulated, with faults)", "history of API calls (seeded)", "Go map iteration order (seeded)", "time (tick counter) and call depth"},
		FaultKinds: append(append([]string{}, fsim.AllFileFaults...), fsim.DIRERR, "text-short", "text-torn", "text-flip", "text-garbage", "text-dupblock", "rejected-statement", "toplevel-non-module"),
	}
}

var corpusCache map[string]string

func loadCorpus() map[string]string {
	if corpusCache != nil {
		return corpusCache
	}
	corpusCache = map[string]string{}
	root := os.Getenv("VERIF_SCRATCH_REPO")
	if root == "" {
		return corpusCache
	}
	for _, dir := range []string{"testdata", "pkg/yang/testdata", "pkg/yangentry/testdata"} {
		filepath.Walk(filepath.Join(root, dir), func(p string, info os.FileInfo, err error) error {
			if err != nil || info.IsDir() || !strings.HasSuffix(p, ".yang") || info.Size() > 64<<10 {
				return nil
			}
			b, err := os.ReadFile(p)
			if err == nil {
				corpusCache[filepath.Base(p)] = string(b)
			}
			return nil
		})
	}
	return corpusCache
}

func (c01Driver) Generate(t *tape.Tape, tier string) core.Case {
	c := &c01Case{}
	clique := false
	corpus := loadCorpus()
	var good map[string]string
	if len(corpus) > 0 && t.Chance(1, 5) {
		names := sortedNames(corpus)
		c.Corpus = map[string]string{}
		ct := t.Sub("corpus")
		for k := ct.Range(1, 4); k > 0; k-- {
			n := names[ct.Intn(len(names))]
			c.Corpus[n] = corpus[n]
		}
		good = c.Corpus
	} else {
		p := profGeneral(t.Sub("profile"))
		p.InvalidPct = 10
		if t.Chance(1, 3) {
			p.MaxInvalid = 3
		}
		g := model.Generate(t.Sub("scenario"), p)
		c.Scenario = g.S
		if it := t.Sub("clique"); it.Chance(1, 300) {
			// submodules that all include each other: any search that walks the
			// include graph must stay polynomial
			c.Scenario = includeClique(it)
			clique = true
		}
		good = model.RenderAll(c.Scenario)
	}
	names := sortedNames(good)
	bt := t.Sub("bad")
	for i, nb := 0, bt.Weighted(3, 3, 2, 1); i < nb; i++ {
		b := badSpec{Name: fmt.Sprintf("bad%d.yang", i), From: names[bt.Intn(len(names))]}
		switch bt.Weighted(2, 2, 4, 2, 1, 5, 1) {
		case 0:
			b.Kind, b.A = "short", bt.Intn(1<<16)
		case 1:
			b.Kind, b.A, b.B = "torn", bt.Intn(1<<16), bt.Intn(64)
		case 2:
			b.Kind, b.A = "flip", bt.Intn(1<<19)
		case 3:
			b.Kind, b.A, b.B = "garbage", bt.Intn(1<<15), bt.Intn(64)
		case 4:
			b.Kind, b.A, b.B = "dupblock", bt.Intn(1<<16), bt.Intn(64)
		case 5:
			b.Kind, b.Raw = "raw", c18Raws[bt.Intn(len(c18Raws))]
			if bt.Chance(1, 2) {
				b.Raw = genSoup(bt) // misplaced / contradictory statements, see C05
			}
		case 6:
			b.Kind, b.Raw = "toplevel", []string{"container top { leaf x { type string; } }\n", "foo bar;\n", "typedef tt { type string; }\n", "leaf;\n", "", "module;", "module m { } }", "submodule s { belongs-to; }"}[bt.Intn(8)]
		}
		c.Bad = append(c.Bad, b)
	}
	// what is on the disk
	dt := t.Sub("disk")
	for _, n := range names {
		if dt.Chance(2, 3) {
			c.OnDisk = append(c.OnDisk, n)
		}
	}
	for _, b := range c.Bad {
		if dt.Chance(1, 3) {
			c.OnDisk = append(c.OnDisk, b.Name)
		}
	}
	c.Path = []string{"lib"}
	if dt.Chance(1, 4) {
		c.Path = []string{"lib/..."}
	}
	// faults: land on files that exist, at early occurrences
	ft := t.Sub("faults")
	nf := ft.Weighted(3, 4, 3, 2, 1)
	for i := 0; i < nf && len(c.OnDisk) > 0; i++ {
		f := fsim.Fault{Path: "lib/" + c.OnDisk[ft.Intn(len(c.OnDisk))], Nth: ft.Weighted(6, 2, 1)}
		kinds := fsim.AllFileFaults
		f.Kind = kinds[ft.Intn(len(kinds))]
		f.A, f.B = ft.Intn(1<<16), ft.Intn(64)
		if f.Kind == fsim.STALE {
			f.From = "lib/" + c.OnDisk[ft.Intn(len(c.OnDisk))]
		}
		if ft.Chance(1, 10) {
			f = fsim.Fault{Kind: fsim.DIRERR, Path: "lib", Nth: ft.Intn(3)}
		}
		c.Faults = append(c.Faults, f)
	}
	c.Sticky = ft.Chance(1, 4)
	// history
	ht := t.Sub("history")
	all := append([]string{}, names...)
	for _, b := range c.Bad {
		all = append(all, b.Name)
	}
	n := ht.Range(2, 12)
	for i := 0; i < n; i++ {
		switch ht.Weighted(5, 4, 1, 4, 3) {
		case 0:
			c.Ops = append(c.Ops, world.Op{Op: "parse", Name: all[ht.Intn(len(all))]})
		case 1:
			if len(c.OnDisk) > 0 {
				n := c.OnDisk[ht.Intn(len(c.OnDisk))]
				switch ht.Intn(3) {
				case 0:
					c.Ops = append(c.Ops, world.Op{Op: "read", Name: strings.TrimSuffix(strings.SplitN(n, "@", 2)[0], ".yang")})
				case 1:
					c.Ops = append(c.Ops, world.Op{Op: "read", Name: "lib/" + n})
				case 2:
					c.Ops = append(c.Ops, world.Op{Op: "read", Name: n})
				}
			}
		case 2:
			c.Ops = append(c.Ops, world.Op{Op: "getmodule", Name: strings.TrimSuffix(strings.SplitN(all[ht.Intn(len(all))], "@", 2)[0], ".yang")})
		case 3:
			c.Ops = append(c.Ops, world.Op{Op: "process"})
		case 4:
			c.Ops = append(c.Ops, world.Op{Op: "query", Arg: []string{"/x:nosuch", "../..", "/", "a/b", ""}[ht.Intn(5)]})
		}
	}
	c.Ops = append(c.Ops, world.Op{Op: "process"}, world.Op{Op: "query"})
	if clique {
		// the whole set, then process and read
		c.Ops = nil
		for _, n := range names {
			c.Ops = append(c.Ops, world.Op{Op: "parse", Name: n})
		}
		c.Ops = append(c.Ops, world.Op{Op: "process"}, world.Op{Op: "query", Arg: "a/b"})
	}
	c.ReadAfterErrors = t.Sub("readmode").Chance(1, 2)
	c.Sched = maporder.Random(t.Sub("sched"))
	ot := t.Sub("options")
	c.Options.StoreUses = ot.Chance(1, 4)
	c.Options.IgnoreNotSupported = ot.Chance(1, 6)
	c.Options.IgnoreCircDeps = ot.Chance(1, 4)
	return c
}

func (c01Driver) Decode(b []byte) (core.Case, error) {
	c := &c01Case{}
	if err := json.Unmarshal(b, c); err != nil {
		return nil, err
	}
	return c, nil
}

func (c01Driver) Finalize(cc core.Case) {
	c := cc.(*c01Case)
	if len(c.Rendered) == 0 {
		c.Rendered = c.texts()
	}
}

func (c01Driver) Run(cc core.Case) core.Outcome {
	c := cc.(*c01Case)
	var o core.Outcome
	o.Key = tape.Hash64(core.MarshalCase(c))
	texts := c.texts()
	disk := map[string]string{}
	if !fsim.SeamComplete() {
		o.Count("probe.fs_seam_incomplete_disk_left_empty", 1)
		c = &c01Case{Scenario: c.Scenario, Bad: c.Bad, Corpus: c.Corpus, Ops: c.Ops, Sched: c.Sched, Options: c.Options, Rendered: c.Rendered}
	}
	for _, n := range c.OnDisk {
		if t, ok := texts[n]; ok {
			disk["lib/"+n] = t
		}
	}
	spec := &world.Spec{Texts: texts, Disk: disk, Faults: c.Faults, Sticky: c.Sticky, Path: c.Path, Sched: c.Sched, Options: c.Options, Ops: c.Ops, QueryAfterErrors: c.ReadAfterErrors}
	res := world.Exec(spec)
	o.Ticks = res.Ticks
	addRecorder(&o, res.Rec)
	for k, n := range res.Disk.Fired {
		o.Count("fault."+k, int64(n))
		o.Nontrivial = true
	}
	kind := map[string]string{}
	for _, b := range c.Bad {
		kind[b.Name] = b.Kind
	}
	var state strings.Builder
	var maxTicks uint64
	maxDepth := 0
	for i, r := range res.Ops {
		if r.Ticks > maxTicks {
			maxTicks = r.Ticks
		}
		if r.Depth > maxDepth {
			maxDepth = r.Depth
		}
		if r.Panic != "" {
			o.Fail("panic:"+r.Frame, "op %d %s(%s) panicked in %s: %s\nhistory: %s\n%s", i, r.Op.Op, r.Op.Name, r.Frame, r.Panic, opsString(c.Ops[:i+1]), trunc(r.Stack, 1500))
			o.Culprits = []string{"panic:" + r.Frame}
			return o
		}
		if r.Overrun != "" {
			o.Fail("overrun-"+r.Overrun, "op %d %s(%s) exceeded the simulated %s bound (ticks=%d depth=%d) at %s\nhistory: %s", i, r.Op.Op, r.Op.Name, r.Overrun, r.Ticks, r.Depth, r.Frame, opsString(c.Ops[:i+1]))
			o.Culprits = []string{"overrun:" + r.Frame}
			return o
		}
		switch r.Op.Op {
		case "parse", "read":
			if r.Err != "" {
				o.Nontrivial = true
				switch k := kind[r.Op.Name]; k {
				case "short", "torn", "flip", "garbage", "dupblock":
					o.Count("fault.text-"+k, 1)
				case "raw":
					o.Count("fault.rejected-statement", 1)
				case "toplevel":
					o.Count("fault.toplevel-non-module", 1)
				}
			}
			fmt.Fprintf(&state, "%v;", r.Err != "")
		case "process", "getmodule":
			if len(r.Errs) > 0 {
				o.Nontrivial = true
				o.Count("probe.process_reports_errors", 1)
			} else {
				o.Count("probe.process_clean", 1)
			}
			fmt.Fprintf(&state, "%d;", len(r.Errs))
		}
	}
	o.Count("max.ticks_per_call", 0)
	if maxTicks > world.TickBudget/20 {
		o.Count("probe.call_used_more_than_5pct_of_tick_budget", 1)
	}
	if maxDepth > world.MaxDepth/5 {
		o.Count("probe.call_used_more_than_20pct_of_depth_budget", 1)
	}
	o.State = tape.Hash64([]byte(state.String()))
	return o
}

func (c01Driver) Shrink(cc core.Case) []core.Case {
	c := cc.(*c01Case)
	var out []core.Case
	clone := func() *c01Case {
		b, _ := json.Marshal(c)
		n := &c01Case{}
		json.Unmarshal(b, n)
		n.Rendered = nil
		return n
	}
	if len(c.Faults) > 0 {
		n := clone()
		n.Faults = nil
		out = append(out, n)
		for i := range c.Faults {
			n := clone()
			n.Faults = append(n.Faults[:i], n.Faults[i+1:]...)
			out = append(out, n)
		}
	}
	if len(c.Ops) > 2 {
		n := clone()
		n.Ops = n.Ops[:len(n.Ops)/2+1]
		out = append(out, n)
	}
	for i := range c.Ops {
		n := clone()
		n.Ops = append(n.Ops[:i], n.Ops[i+1:]...)
		out = append(out, n)
	}
	for i, op := range c.Ops {
		if op.Op == "read" || op.Op == "getmodule" {
			// prefer Parse over Read
			name := op.Name
			if !strings.HasSuffix(name, ".yang") {
				name += ".yang"
			}
			name = strings.TrimPrefix(name, "lib/")
			if _, ok := c.texts()[name]; ok {
				n := clone()
				n.Ops[i] = world.Op{Op: "parse", Name: name}
				out = append(out, n)
			}
		}
	}
	if len(c.OnDisk) > 0 {
		n := clone()
		n.OnDisk = nil
		out = append(out, n)
		for i := range c.OnDisk {
			n := clone()
			n.OnDisk = append(n.OnDisk[:i], n.OnDisk[i+1:]...)
			out = append(out, n)
		}
	}
	if c.Scenario != nil {
		for _, s := range model.ShrinkScenario(c.Scenario) {
			n := clone()
			n.Scenario = s
			out = append(out, n)
		}
	}
	for k := range c.Corpus {
		if len(c.Corpus) > 1 {
			n := clone()
			delete(n.Corpus, k)
			out = append(out, n)
		}
	}
	// shrink corpus texts line-wise
	for k, v := range c.Corpus {
		lines := strings.Split(v, "\n")
		if len(lines) > 4 {
			for _, part := range [][2]int{{0, len(lines) / 2}, {len(lines) / 2, len(lines)}} {
				n := clone()
				n.Corpus[k] = strings.Join(append(append([]string{}, lines[:part[0]]...), lines[part[1]:]...), "\n")
				out = append(out, n)
			}
		}
		if len(lines) <= 40 {
			for i := range lines {
				n := clone()
				n.Corpus[k] = strings.Join(append(append([]string{}, lines[:i]...), lines[i+1:]...), "\n")
				out = append(out, n)
			}
		}
	}
	for i := range c.Bad {
		n := clone()
		n.Bad = append(n.Bad[:i], n.Bad[i+1:]...)
		out = append(out, n)
	}
	for _, s := range schedShrinks(c.Sched) {
		n := clone()
		n.Sched = s
		out = append(out, n)
	}
	if c.Options != (world.Options{}) {
		n := clone()
		n.Options = world.Options{}
		out = append(out, n)
	}
	return out
}

func (c01Driver) Describe(cc core.Case) string {
	c := cc.(*c01Case)
	var sb strings.Builder
	t := c.texts()
	names := sortedNames(t)
	sort.Strings(names)
	for _, n := range names {
		fmt.Fprintf(&sb, "---- %s\n%s\n", n, t[n])
	}
	fmt.Fprintf(&sb, "---- disk: %v path: %v faults: %+v sticky=%v\nops: %s\nsites: %v\n", c.OnDisk, c.Path, c.Faults, c.Sticky, opsString(c.Ops), culpritSites(c.Sched))
	return sb.String()
}

// includeClique builds a module with 8-11 submodules that include each other,
// plus one more submodule that only the module includes and that holds the
// grouping one of the others uses (or nobody holds it).
func includeClique(t *tape.Tape) *model.Scenario {
	n := t.Range(8, 11)
	m := &model.Mod{Name: "m0", Prefix: "p0", NS: "urn:m0"}
	s := &model.Scenario{Mods: []*model.Mod{m}}
	var subs []*model.Mod
	for i := 0; i < n; i++ {
		sub := &model.Mod{Name: fmt.Sprintf("s%d", i), BelongsTo: "m0", Prefix: "p0"}
		subs = append(subs, sub)
		m.Includes = append(m.Includes, &model.Include{Sub: sub.Name})
	}
	for i, sub := range subs {
		for j, o := range subs {
			if i != j {
				sub.Includes = append(sub.Includes, &model.Include{Sub: o.Name})
			}
		}
		s.Mods = append(s.Mods, sub)
	}
	holder := &model.Mod{Name: "sx", BelongsTo: "m0", Prefix: "p0"}
	m.Includes = append(m.Includes, &model.Include{Sub: "sx"})
	s.Mods = append(s.Mods, holder)
	gname := "gx"
	if t.Chance(1, 2) {
		holder.Groupings = append(holder.Groupings, &model.Grouping{Name: gname, Body: []*model.Node{{Kind: model.KLeaf, Name: "lx", Type: &model.Type{Ref: model.Ref{Name: "string"}}}}})
	}
	user := subs[t.Intn(len(subs))]
	user.Body = append(user.Body, &model.Node{Kind: model.KContainer, Name: "cu", Kids: []*model.Node{{Kind: model.KUses, Uses: &model.Ref{Mod: "sx", Name: gname}}}})
	if t.Chance(1, 2) {
		m.Body = append(m.Body, &model.Node{Kind: model.KUses, Uses: &model.Ref{Mod: "sx", Name: gname}})
	}
	return s
}
