package props

import (
	"bytes"
	"encoding/json"
	"fmt"
	"os"
	"os/exec"
	"path/filepath"
	"sort"
	"strings"

	"github.com/openconfig/goyang/pkg/yang"
	"github.com/openconfig/goyang/pkg/yangentry"
	"github.com/openconfig/goyang/pkg/zzsim"
	"github.com/openconfig/goyang/zzverif/core"
	"github.com/openconfig/goyang/zzverif/dump"
	"github.com/openconfig/goyang/zzverif/fsim"
	"github.com/openconfig/goyang/zzverif/maporder"
	"github.com/openconfig/goyang/zzverif/model"
	"github.com/openconfig/goyang/zzverif/tape"
	"github.com/openconfig/goyang/zzverif/world"
)

// C05 — same sources and options give the same result, whatever the order.
//
// Simulated: the iteration order of every map range in the library and the
// command (seam R1), the order in which the sources are loaded, repetition.
// Real: lexer, parser, AST builder, resolver, Entry code, the goyang command
// (child process), yangentry.Parse.

type c05Run struct {
	Order []string           `json:"order"`
	Sched *maporder.Schedule `json:"sched"`
}

type c05Case struct {
	Mode     string            `json:"mode"` // lib | cli | yangentry
	Scenario *model.Scenario   `json:"scenario,omitempty"`
	Rendered map[string]string `json:"rendered,omitempty"` // file name -> text (authoritative when present)
	Options  world.Options     `json:"options,omitempty"`
	CLIArgs  []string          `json:"cli_args,omitempty"`
	// EntryRoots (yangentry mode): when set, only these sources are named to
	// yangentry.Parse; what they import or include is fetched from the search
	// path while the set is processed.
	EntryRoots []string `json:"entry_roots,omitempty"`
	// CLIBare: sources whose file is called <module>.yang are given to the
	// command by module name (it then looks the file up itself).
	CLIBare bool `json:"cli_bare,omitempty"`
	Runs     []c05Run          `json:"runs"`
	Injected []string          `json:"injected,omitempty"`
	// Soup maps a file name to statements spliced before the closing brace of
	// that module: mostly misplaced or contradictory ones, several at a time,
	// so that the AST builder has more than one thing to complain about (which
	// one it reports must not depend on map order).
	Soup map[string]string `json:"soup,omitempty"`
}

func (c *c05Case) texts() map[string]string {
	if len(c.Rendered) > 0 {
		return c.Rendered
	}
	t := model.RenderAll(c.Scenario)
	for n, raw := range c.Soup {
		if d, ok := derive(t, badSpec{From: n, Kind: "raw", Raw: raw}); ok {
			t[n] = d
		}
	}
	return t
}

// soupPool holds statements that are valid somewhere in YANG; spliced at the
// top level of a module or submodule, or wrapped in some node, most of them
// are misplaced, duplicated or contradict what is there.
var soupPool = []string{
	`namespace "urn:zz";`, `prefix zz;`, `belongs-to zzm { prefix zzp; }`, `yang-version 1.1;`, `yang-version 1;`,
	`organization "o";`, `contact "c";`, `description "d";`, `reference "r";`, `revision 2001-01-01;`,
	`import zzi { prefix zzi; }`, `include zzs;`, `feature zzf;`, `extension zze;`, `identity zzid;`,
	`typedef zzt { type string; }`, `grouping zzg { }`, `config true;`, `config false;`, `mandatory true;`, `key "k";`,
	`unique "u";`, `min-elements 1;`, `max-elements 2;`, `ordered-by user;`, `presence "p";`, `units "u";`, `default "d";`,
	`status current;`, `when "x";`, `must "x";`, `input { }`, `output { }`, `case zzc { }`, `type string;`, `type int8;`,
	`path "../x";`, `base zzb;`, `value 1;`, `position 1;`, `range "1..2";`, `length "1..2";`, `pattern "a";`,
	`fraction-digits 2;`, `require-instance true;`, `error-message "m";`, `error-app-tag "t";`, `argument a;`,
	`yin-element true;`, `deviate add { }`, `refine x { }`, `augment "/zz:x" { }`, `anyxml zza;`, `uses zzu;`,
	`choice zzch { }`, `leaf zzl { type string; }`, `notification zzn { }`, `rpc zzr { }`, `action zza { }`,
	`if-feature zzf;`, `revision-date 2001-01-01;`, `modifier invert-match;`, `bogus 1;`, `zz:ext 1;`,
}

var soupWrap = []string{"", "", "container zzw { %s }", "leaf zzw { %s }", "list zzw { %s }", "leaf-list zzw { %s }", "choice zzw { %s }",
	"rpc zzw { %s }", "notification zzw { %s }", "typedef zzw { %s }", "grouping zzw { %s }", "identity zzw { %s }",
	"leaf zzw { type enumeration { enum a { %s } } }", "leaf zzw { type string { %s } }", "augment \"/zz:y\" { %s }",
	"deviation \"/zz:y\" { deviate replace { %s } }", "extension zzw { %s }", "feature zzw { %s }", "import zzw { %s }",
	"revision 2002-02-02 { %s }", "anydata zzw { %s }", "container zzw { uses zzw2 { %s } }"}

// soupLate holds statements the parser accepts wherever a data node may stand
// and that fail during Process: several of them on one line give several
// errors with one file and line, i.e. ordered by column alone.
var soupLate = []string{
	`uses zznogrouping;`, `leaf zzl2 { type zznotype; }`, `leaf zzl3 { type zzp:t; }`, `container zzc2 { uses zzu2; }`,
	`leaf zzl4 { type identityref { base zznobase; } }`, `list zzls { key "k"; leaf k { type zznotype2; } }`,
	`leaf-list zzll { type zznotype3; }`, `leaf zzok { type string; }`, `container zzc3 { }`,
}

func genSoup(t *tape.Tape) string {
	if t.Chance(1, 3) {
		var parts []string
		for k := t.Range(2, 4); k > 0; k-- {
			parts = append(parts, soupLate[t.Intn(len(soupLate))])
		}
		body := strings.Join(parts, " ")
		if t.Chance(1, 3) {
			body = "container zzw { " + body + " }"
		}
		return "  " + body + "\n"
	}
	var parts []string
	for k := t.Range(2, 4); k > 0; k-- {
		parts = append(parts, soupPool[t.Intn(len(soupPool))])
	}
	body := strings.Join(parts, " ")
	if w := soupWrap[t.Intn(len(soupWrap))]; w != "" {
		body = fmt.Sprintf(w, body)
	}
	return "  " + body + "\n"
}

type c05Driver struct{}

func init() { core.Register(c05Driver{}) }

func (c05Driver) ID() string { return "C05" }

func (c05Driver) Tier(t string) core.Tier {
	if t == "thorough" {
		return core.Tier{Runs: 400_000, AnnounceEvery: 1}
	}
	return core.Tier{Runs: 12_000, AnnounceEvery: 1}
}

func (c05Driver) Info() core.Info {
	return core.Info{
		Rule: "Traps added per case with small probability: an older revision of one module (possibly one that includes submodules) with some importers pinned to it by revision-date; two modules sharing one namespace; twin modules with a cycle whose members stand at equal positions. A case is a generated module set (1-4 modules, 0-2 submodules, deviating modules; typedefs, identities incl. equal names in different modules, groupings, uses, augment chains, deviations with several deviate statements, and up to 2 injected invalid constructs) plus K alternative executions, each a (load-order permutation, map-order schedule = mode per iteration site + one integer). " +
			"Every execution runs on a fresh Modules and is compared byte for byte with the canonical execution (sorted load order, every site sorted) and with a repeat of it; modes: library (full dump or error list), command (stdout, stderr and exit status of the instrumented goyang binary for --format tree and types, arguments permuted), yangentry.Parse on the simulated disk. " +
			"A case is non-trivial when at least one alternative execution consulted an iteration site with >= 2 keys in a non-sorted mode or used a non-identity load order. Distinct = distinct (scenario, executions) descriptions.",
		Assumptions: []string{
			"every key order the oracle produces is an order the Go specification allows for a native range; the native runtime may produce orders the sampled modes do not",
			"the set of sources has pairwise distinct module names (several revisions of one name are C13's domain)",
			"an outcome in which every execution crashes identically is C01's business and is counted, not reported, here",
		},
		Real: []string{"lexer", "parser", "AST builder", "resolver (Process)", "Entry tree code", "goyang command (tree, types formatters) as a child process", "yangentry.Parse", "findFile/findInDir (yangentry mode)"},
		Stub: []string{"Go map iteration order (seeded oracle at every rewritten range)", "order of load calls (seeded)", "disk (simulated, fault-free here)"},
	}
}

func (c05Driver) Generate(t *tape.Tape, tier string) core.Case {
	c := &c05Case{}
	switch t.Weighted(16, 2, 2) {
	case 0:
		c.Mode = "lib"
	case 1:
		c.Mode = "cli"
	case 2:
		c.Mode = "yangentry"
	}
	g := model.Generate(t.Sub("scenario"), profGeneral(t.Sub("profile")))
	if tt := t.Sub("twins"); tt.Chance(1, 25) {
		// twin modules: a cycle of groupings or typedefs through 2-3 modules of
		// identical layout, so that its members stand at the same line and column
		// of different files (ties in anything that orders by position)
		g = &model.Generated{S: twinCycle(tt), Injected: []string{"twin-cycle"}}
	}
	c.Scenario = g.S
	c.Injected = g.Injected
	// order trap: an older revision of one module is part of the set as well
	rt := t.Sub("revisions")
	den := 6
	if c.Mode == "yangentry" {
		// what is fetched from the search path, and for whom, matters most
		// when a module exists there in two revisions
		den = 2
	}
	if name := addOlderRevisionInc(rt, g.S, den, false, rt.Sub("includes").Chance(1, 4), rt.Sub("keep-augments").Chance(1, 2)); name != "" {
		c.Injected = append(c.Injected, "two-revisions-of-"+name)
		if c.Mode == "yangentry" {
			// a second module in two revisions: the two revisions of the first
			// may then differ in whether they pin the second one by date
			rt2 := t.Sub("revisions2")
			if name2 := addOlderRevisionInc(rt2, g.S, 2, false, false); name2 != "" {
				c.Injected = append(c.Injected, "two-revisions-of-"+name2)
			}
		}
	}
	// order trap: two different modules declare the same namespace (every
	// namespace-to-module lookup then fails, with one and the same message)
	if nt := t.Sub("sharedns"); nt.Chance(1, 30) {
		var tops []*model.Mod
		for _, m := range g.S.Mods {
			if !m.IsSub() && m.Name != model.PosixModule {
				tops = append(tops, m)
			}
		}
		if len(tops) >= 2 {
			p := nt.Perm(len(tops))
			tops[p[0]].NS = tops[p[1]].NS
			c.Injected = append(c.Injected, "shared-namespace")
		}
	}
	// statement soup in one text
	if st := t.Sub("soup"); st.Chance(1, 4) {
		fn := sortedNames(model.RenderAll(g.S))
		c.Soup = map[string]string{}
		// one text only: with two rejected texts, which of them is reported
		// (first) depends on the load order by definition
		target := fn[st.Intn(len(fn))]
		c.Soup[target] = genSoup(st)
		if st.Chance(1, 4) {
			// header confusion: everything the other kind of text requires
			hdr := "  belongs-to zzm { prefix zzp; }\n"
			for _, m := range g.S.Mods {
				if m.FileName() == target && m.IsSub() {
					hdr = "  namespace \"urn:zz\"; prefix zz;\n"
				}
			}
			if st.Chance(1, 2) {
				c.Soup[target] = hdr
			} else {
				c.Soup[target] = hdr + c.Soup[target]
			}
		}
		c.Injected = append(c.Injected, "statement-soup")
	}
	ot := t.Sub("options")
	c.Options.StoreUses = ot.Chance(1, 4)
	c.Options.IgnoreNotSupported = ot.Chance(1, 6)
	c.Options.IgnoreCircDeps = ot.Chance(1, 6)
	names := sortedNames(model.RenderAll(g.S))
	k := 5
	if tier == "thorough" {
		k = 10
	}
	if et := t.Sub("entry-roots"); c.Mode == "yangentry" && et.Chance(1, 2) {
		for _, n := range names {
			if et.Chance(1, 2) {
				c.EntryRoots = append(c.EntryRoots, n)
			}
		}
		if len(c.EntryRoots) == 0 {
			c.EntryRoots = []string{names[et.Intn(len(names))]}
		}
		// with two modules in two revisions: everything is named except the
		// files of the second one, which its importers (among them both
		// revisions of the first) then fetch, pinned or not
		var two []string
		for _, inj := range c.Injected {
			if strings.HasPrefix(inj, "two-revisions-of-") {
				two = append(two, strings.TrimPrefix(inj, "two-revisions-of-"))
			}
		}
		if len(two) == 2 && et.Chance(2, 3) {
			c.EntryRoots = nil
			for _, n := range names {
				if moduleOfFile(n) != two[1] {
					c.EntryRoots = append(c.EntryRoots, n)
				}
			}
		}
	}
	if c.Mode == "cli" {
		k = 3
		c.CLIArgs = [][]string{{"--format", "tree"}, {"--format", "types"}, {"--format", "types", "--types_verbose"}}[ot.Intn(3)]
		if c.Options.IgnoreCircDeps {
			c.CLIArgs = append(c.CLIArgs, "--ignore-circdep")
		}
		c.CLIBare = ot.Chance(1, 3)
	}
	st := t.Sub("schedules")
	for i := 0; i < k; i++ {
		r := c05Run{Order: permuted(st, names), Sched: maporder.Random(st)}
		if i == 0 {
			// pure load-order run under the canonical map order
			r.Sched = maporder.Canonical()
		}
		if i == 1 {
			// pure map-order run under the canonical load order
			r.Order = names
		}
		c.Runs = append(c.Runs, r)
	}
	return c
}

func (c05Driver) Decode(b []byte) (core.Case, error) {
	c := &c05Case{}
	if err := json.Unmarshal(b, c); err != nil {
		return nil, err
	}
	if c.Scenario == nil && len(c.Rendered) == 0 {
		return nil, fmt.Errorf("C05 case without sources")
	}
	return c, nil
}

func (c05Driver) Finalize(cc core.Case) {
	c := cc.(*c05Case)
	if len(c.Rendered) == 0 && c.Scenario != nil {
		c.Rendered = model.RenderAll(c.Scenario)
	}
}

func (d c05Driver) Run(cc core.Case) core.Outcome {
	c := cc.(*c05Case)
	var o core.Outcome
	o.Key = tape.Hash64(core.MarshalCase(c))
	if noRevPair(c.Scenario) {
		o.Discard = "input-class-of-open-finding-C13-norev"
		return o
	}
	texts := c.texts()
	names := sortedNames(texts)
	switch c.Mode {
	case "cli":
		d.runCLI(c, texts, names, &o)
	case "yangentry":
		d.runYangentry(c, texts, names, &o)
	default:
		d.runLib(c, texts, names, &o)
	}
	return o
}

func isIdentity(order, names []string) bool {
	if len(order) != len(names) {
		return false
	}
	for i := range order {
		if order[i] != names[i] {
			return false
		}
	}
	return true
}

func (c05Driver) runLib(c *c05Case, texts map[string]string, names []string, o *core.Outcome) {
	canon := runBatch(texts, names, maporder.Canonical(), c.Options)
	o.Ticks += canon.Res.Ticks
	o.State = tape.Hash64([]byte(canon.Text))
	if canon.Clean {
		o.Count("probe.canonical_run_clean", 1)
	} else if canon.Crashed {
		o.Count("other_oracle.c01_would_fire", 1)
	} else {
		o.Count("probe.canonical_run_reports_errors", 1)
	}
	if msg := checkErrorOrder(canon.Errs); msg != "" {
		o.Fail("error-list-order", "canonical execution: %s", msg)
		return
	}
	rep := runBatch(texts, names, maporder.Canonical(), c.Options)
	o.Ticks += rep.Res.Ticks
	if rep.Text != canon.Text {
		o.Fail("repeat-differs", "two executions with the same load order and the same map order differ (uncontrolled nondeterminism): %s", firstDiff(canon.Text, rep.Text))
		return
	}
	for i, r := range c.Runs {
		alt := runBatch(texts, r.Order, r.Sched, c.Options)
		o.Ticks += alt.Res.Ticks
		addRecorder(o, alt.Res.Rec)
		nonCanon := false
		for _, n := range alt.Res.Rec.NonCanon {
			if n > 0 {
				nonCanon = true
			}
		}
		if nonCanon || !isIdentity(r.Order, names) {
			o.Nontrivial = true
		}
		if msg := checkErrorOrder(alt.Errs); msg != "" {
			o.Fail("error-list-order", "execution %d: %s", i, msg)
			o.Culprits = culpritSites(r.Sched)
			return
		}
		if alt.Text != canon.Text {
			class := "order-dependence"
			if alt.Crashed != canon.Crashed {
				class = "order-dependent-crash"
			}
			what := "map order"
			if r.Sched.IsCanonical() {
				what = "load order"
			} else if !isIdentity(r.Order, names) {
				what = "load order and/or map order"
			}
			o.Fail(class, "execution %d (load order %v, non-sorted sites %v) differs from the canonical execution; varied: %s\n%s", i, r.Order, culpritSites(r.Sched), what, firstDiff(canon.Text, alt.Text))
			o.Culprits = culpritSites(r.Sched)
			if !isIdentity(r.Order, names) {
				o.Culprits = append(o.Culprits, "load-order")
			}
			return
		}
	}
	if canon.Crashed {
		// identical crash under every schedule: not this property's business
		o.Discard = "crash-under-every-schedule"
	}
}

// ---- yangentry.Parse on the simulated disk

func (c05Driver) runYangentry(c *c05Case, texts map[string]string, names []string, o *core.Outcome) {
	if !fsim.SeamComplete() {
		o.Discard = "fs-seam-incomplete"
		return
	}
	files := map[string]string{}
	var mods []string
	for _, n := range names {
		files["lib/"+n] = texts[n]
		mods = append(mods, strings.TrimSuffix(n, ".yang"))
	}
	run := func(order []string, sched *maporder.Schedule) (string, *maporder.Recorder, bool) {
		rec := maporder.NewRecorder()
		maporder.Install(sched, rec)
		defer maporder.Uninstall()
		zzsim.FS = fsim.New(files)
		defer func() { zzsim.FS = nil }()
		var sb strings.Builder
		crashed := false
		func() {
			defer func() {
				if r := recover(); r != nil {
					crashed = true
					fmt.Fprintf(&sb, "PANIC %v\n", r)
				}
			}()
			zzsim.Active, zzsim.Ticks, zzsim.Depth, zzsim.TickBudget, zzsim.MaxDepth = true, 0, 0, world.TickBudget, world.MaxDepth
			defer func() { zzsim.Active = false }()
			var in []string
			for _, n := range order {
				if len(c.EntryRoots) > 0 {
					named := false
					for _, r := range c.EntryRoots {
						named = named || r == n
					}
					if !named {
						continue
					}
				}
				in = append(in, strings.TrimSuffix(n, ".yang"))
			}
			entries, errs := yangentry.Parse(in, []string{"lib"})
			for i, e := range errs {
				fmt.Fprintf(&sb, "error[%d]: %v\n", i, e)
			}
			var ks []string
			for k := range entries {
				ks = append(ks, k)
			}
			sort.Strings(ks)
			for _, k := range ks {
				fmt.Fprintf(&sb, "entry %s:\n%s", k, dumpEntry(entries[k]))
			}
		}()
		return sb.String(), rec, crashed
	}
	canon, _, crashed := run(names, maporder.Canonical())
	o.State = tape.Hash64([]byte(canon))
	for i, r := range c.Runs {
		alt, rec, _ := run(r.Order, r.Sched)
		addRecorder(o, rec)
		o.Nontrivial = true
		if alt != canon {
			o.Fail("order-dependence-yangentry", "yangentry.Parse execution %d (order %v, sites %v) differs from the canonical one: %s", i, r.Order, culpritSites(r.Sched), firstDiff(canon, alt))
			o.Culprits = culpritSites(r.Sched)
			return
		}
	}
	if crashed {
		o.Discard = "crash-under-every-schedule"
	}
	_ = mods
}

func dumpEntry(e *yang.Entry) string {
	ms := e.Modules()
	_ = ms
	x := dump.ToX(e, nil)
	return strings.Join(model.Canon(x, model.CanonOpts{}), "\n") + "\n"
}

// ---- the goyang command as a child process

var cliSeq int

func (c05Driver) runCLI(c *c05Case, texts map[string]string, names []string, o *core.Outcome) {
	cli := os.Getenv("VERIF_CLI")
	work := os.Getenv("VERIF_WORK")
	if cli == "" || work == "" {
		o.Discard = "cli-binary-not-available"
		return
	}
	cliSeq++
	dir := filepath.Join(work, fmt.Sprintf("c05-%d-%d", os.Getpid(), cliSeq))
	if err := os.MkdirAll(dir, 0o755); err != nil {
		o.Discard = "cli-workdir"
		return
	}
	defer os.RemoveAll(dir)
	for n, t := range texts {
		if err := os.WriteFile(filepath.Join(dir, n), []byte(t), 0o644); err != nil {
			o.Discard = "cli-workdir"
			return
		}
	}
	run := func(order []string, sched *maporder.Schedule) string {
		args := append([]string{}, c.CLIArgs...)
		for _, a := range order {
			if c.CLIBare && strings.HasSuffix(a, ".yang") && !strings.Contains(a, "@") {
				a = strings.TrimSuffix(a, ".yang")
			}
			args = append(args, a)
		}
		cmd := exec.Command(cli, args...)
		cmd.Dir = dir
		js, _ := json.Marshal(sched)
		cmd.Env = append(os.Environ(), "VERIF_MAPORDER="+string(js))
		var stdout, stderr bytes.Buffer
		cmd.Stdout, cmd.Stderr = &stdout, &stderr
		err := cmd.Run()
		code := 0
		if err != nil {
			if ee, ok := err.(*exec.ExitError); ok {
				code = ee.ExitCode()
			} else {
				return "spawn error: " + err.Error()
			}
		}
		se := stderr.String()
		if strings.Contains(se, "goroutine ") && strings.Contains(se, "panic") {
			// keep only the panic headline: stack addresses differ between runs
			if i := strings.Index(se, "\n\ngoroutine "); i > 0 {
				se = se[:i]
			}
		}
		return fmt.Sprintf("exit=%d\n--stdout--\n%s--stderr--\n%s", code, stdout.String(), se)
	}
	canon := run(names, maporder.Canonical())
	o.State = tape.Hash64([]byte(canon))
	o.Count("probe.cli_child_runs", 1)
	rep := run(names, maporder.Canonical())
	if rep != canon {
		o.Fail("repeat-differs-cli", "two runs of the command with the same arguments and the same map order differ: %s", firstDiff(canon, rep))
		return
	}
	for i, r := range c.Runs {
		alt := run(r.Order, r.Sched)
		o.Count("probe.cli_child_runs", 1)
		o.Nontrivial = true
		o.Sched = tape.MixN(o.Sched, tape.Hash64([]byte(fmt.Sprint(r.Order, culpritSites(r.Sched), r.Sched.Seed))))
		if alt != canon {
			o.Fail("order-dependence-cli", "goyang %v: run %d (argument order %v, non-sorted sites %v) differs from the canonical run: %s", c.CLIArgs, i, r.Order, culpritSites(r.Sched), firstDiff(canon, alt))
			o.Culprits = culpritSites(r.Sched)
			if !isIdentity(r.Order, names) {
				o.Culprits = append(o.Culprits, "load-order")
			}
			return
		}
	}
}

func (c05Driver) Shrink(cc core.Case) []core.Case {
	c := cc.(*c05Case)
	var out []core.Case
	clone := func() *c05Case {
		b, _ := json.Marshal(c)
		n := &c05Case{}
		json.Unmarshal(b, n)
		if n.Scenario != nil {
			n.Rendered = nil
		}
		return n
	}
	// a single alternative execution is enough
	if len(c.Runs) > 1 {
		for i := range c.Runs {
			n := clone()
			n.Runs = []c05Run{n.Runs[i]}
			out = append(out, n)
		}
	}
	if len(c.Runs) == 1 {
		r := c.Runs[0]
		names := sortedNames(c.texts())
		if !isIdentity(r.Order, names) {
			n := clone()
			n.Runs[0].Order = names
			out = append(out, n)
		}
		for _, s := range schedShrinks(r.Sched) {
			n := clone()
			n.Runs[0].Sched = s
			out = append(out, n)
		}
	}
	soupKeys := make([]string, 0, len(c.Soup))
	for k := range c.Soup {
		soupKeys = append(soupKeys, k)
	}
	sort.Strings(soupKeys)
	for _, k := range soupKeys {
		n := clone()
		delete(n.Soup, k)
		out = append(out, n)
	}
	if c.Scenario != nil {
		for _, s := range model.ShrinkScenario(c.Scenario) {
			n := clone()
			n.Scenario = s
			for k := range n.Soup {
				if _, ok := model.RenderAll(s)[k]; !ok {
					delete(n.Soup, k)
				}
			}
			names := sortedNames(model.RenderAll(s))
			ok := map[string]bool{}
			for _, x := range names {
				ok[x] = true
			}
			for i := range n.Runs {
				var ord []string
				for _, x := range n.Runs[i].Order {
					if ok[x] {
						ord = append(ord, x)
					}
				}
				// modules whose file name changed (revision dropped) go last
				have := map[string]bool{}
				for _, x := range ord {
					have[x] = true
				}
				for _, x := range names {
					if !have[x] {
						ord = append(ord, x)
					}
				}
				n.Runs[i].Order = ord
			}
			out = append(out, n)
		}
	}
	if c.Options != (world.Options{}) {
		n := clone()
		n.Options = world.Options{}
		out = append(out, n)
	}
	return out
}

func (c05Driver) Describe(cc core.Case) string {
	c := cc.(*c05Case)
	var sb strings.Builder
	t := c.texts()
	for _, n := range sortedNames(t) {
		fmt.Fprintf(&sb, "---- %s\n%s", n, t[n])
	}
	fmt.Fprintf(&sb, "---- mode=%s options=%+v injected=%v cli=%v\n", c.Mode, c.Options, c.Injected, c.CLIArgs)
	for i, r := range c.Runs {
		fmt.Fprintf(&sb, "run %d: order=%v sites=%v\n", i, r.Order, culpritSites(r.Sched))
	}
	if c.Scenario != nil {
		cp := model.Compile(c.Scenario)
		fmt.Fprintf(&sb, "reference conflicts: %v\n", cp.Conflicts)
	}
	return sb.String()
}

func twinCycle(t *tape.Tape) *model.Scenario {
	k := t.Range(2, 3)
	s := &model.Scenario{}
	typedefs := t.Chance(1, 2)
	for i := 0; i < k; i++ {
		m := &model.Mod{Name: fmt.Sprintf("m%d", i), Prefix: fmt.Sprintf("p%d", i), NS: fmt.Sprintf("urn:m%d", i)}
		s.Mods = append(s.Mods, m)
	}
	for i, m := range s.Mods {
		nxt := s.Mods[(i+1)%k]
		if typedefs {
			m.Typedefs = append(m.Typedefs, &model.Typedef{Name: "t", Type: &model.Type{Ref: model.Ref{Mod: nxt.Name, Name: "t"}}})
			m.Body = append(m.Body, &model.Node{Kind: model.KLeaf, Name: fmt.Sprintf("l%d", i), Type: &model.Type{Ref: model.Ref{Mod: m.Name, Name: "t"}}})
		} else {
			m.Groupings = append(m.Groupings, &model.Grouping{Name: "g", Body: []*model.Node{
				{Kind: model.KLeaf, Name: fmt.Sprintf("x%d", i), Type: &model.Type{Ref: model.Ref{Name: "string"}}},
				{Kind: model.KUses, Uses: &model.Ref{Mod: nxt.Name, Name: "g"}},
			}})
			if t.Chance(1, 2) {
				m.Body = append(m.Body, &model.Node{Kind: model.KContainer, Name: fmt.Sprintf("c%d", i), Kids: []*model.Node{{Kind: model.KUses, Uses: &model.Ref{Mod: m.Name, Name: "g"}}}})
			}
		}
		// every module must import exactly one other module so that the layouts agree
		if k == 2 || true {
			_ = nxt
		}
	}
	return s
}
