package props

import (
	"encoding/json"
	"fmt"
	"sort"
	"strings"

	"github.com/openconfig/goyang/pkg/yang"
	"github.com/openconfig/goyang/zzverif/core"
	"github.com/openconfig/goyang/zzverif/dump"
	"github.com/openconfig/goyang/zzverif/maporder"
	"github.com/openconfig/goyang/zzverif/model"
	"github.com/openconfig/goyang/zzverif/tape"
	"github.com/openconfig/goyang/zzverif/world"
)

// C04 — a clean Process yields proper trees and really means no errors.
//
// Checked the way a simulator checks a state invariant: after every Process
// that returns no errors, in every simulated history (load order, map order,
// re-Process, and read operations that mutate: Find creates rpc input/output
// on demand), the invariant is walked over every module and submodule tree.

type c04Case struct {
	Scenario *model.Scenario    `json:"scenario"`
	Rendered map[string]string  `json:"rendered,omitempty"`
	Order    []string           `json:"order"`
	Sched    *maporder.Schedule `json:"sched"`
	Options  world.Options      `json:"options,omitempty"`
	Twice    bool               `json:"process_twice,omitempty"`
	Injected []string           `json:"injected,omitempty"`
}

func (c *c04Case) texts() map[string]string {
	if len(c.Rendered) > 0 {
		return c.Rendered
	}
	return model.RenderAll(c.Scenario)
}

type c04Driver struct{}

func init() { core.Register(c04Driver{}) }

func (c04Driver) ID() string { return "C04" }

func (c04Driver) Tier(t string) core.Tier {
	if t == "thorough" {
		return core.Tier{Runs: 1_200_000, AnnounceEvery: 1}
	}
	return core.Tier{Runs: 30_000, AnnounceEvery: 1}
}

func (c04Driver) Info() core.Info {
	return core.Info{
		Rule: "A case is a generated module set drawn in rotation from the generator profiles of the other drivers (general, uses-heavy, augment-heavy, deviation-heavy, submodule-heavy, rpc/choice-heavy) with a seeded load order, map-order schedule, options, optional second Process, and, after a clean Process, read operations that mutate (Find of input/output on every rpc/action, absolute Find of every node). " +
			"The invariant: child filed under its own name; parent links incl. rpc input/output; every node object reached exactly once across all module and submodule trees; kind / child map / type / list attributes consistent; every choice member a case; no augment left; no node carries a recorded error and GetErrors() is empty. A set that contains an injected error-carrying construct (duplicate sibling, unknown type or grouping, bad range, bad config value, colliding augments) must not come back clean. " +
			"Non-trivial: Process was clean and the trees hold >= 10 nodes, or an injected conflict was (correctly) reported. Distinct = distinct case descriptions.",
		Assumptions: []string{
			"for a conflict-free scenario the invariant is a pure function of the input; the simulator contributes workload diversity plus the schedule / history dimension (which of two colliding augments is merged first, whether an error lands before or after the last error sweep, lazily created rpc input/output)",
			"leaf-list entries are built from a synthetic leaf node, so 'list attributes <=> list or leaf-list' is checked as: directory kinds other than list carry none, lists carry them, leaves may",
		},
		Real: []string{"lexer", "parser", "AST builder", "Process", "ToEntry / merge / dup / FixChoice / Augment / ApplyDeviate", "Entry.Find (lazy rpc input/output)", "GetErrors"},
		Stub: []string{"Go map iteration order (seeded)", "order of load calls (seeded)", "disk (empty simulated disk)"},
	}
}

func profC04(t *tape.Tape) model.Profile {
	p := profGeneral(t)
	switch t.Intn(6) {
	case 0:
	case 1:
		p.UsesHeavy = true
		p.Groupings = [2]int{2, 4}
	case 2:
		p.Augments = [2]int{2, 8}
		p.Subs = [2]int{1, 3}
	case 3:
		p.Deviations = [2]int{2, 6}
		if t.Chance(1, 2) {
			// un-appliable deviations: their errors arise after the last sweep over the trees
			p.Invalid = []string{model.InvDevMissing, model.InvDevAddDefault, model.InvDevDelDefault, model.InvDevDelOther, model.InvDevMinNonList, model.InvDevDelMin, model.InvDevBadType, model.InvDevUnknownKind, model.InvDevGone, model.InvDevDoubleNS, model.InvDevBadPrefix}
			p.InvalidPct = 25
		}
	case 4:
		p.Subs = [2]int{2, 4}
		p.Mods = [2]int{1, 3}
	case 5:
		p.NoRPC, p.NoChoice = false, false
		p.TopNodes = [2]int{3, 6}
	}
	return p
}

func init() { profiles["c04"] = profC04 }

func (c04Driver) Generate(t *tape.Tape, tier string) core.Case {
	c := &c04Case{}
	p := profC04(t.Sub("profile"))
	if t.Chance(3, 5) {
		p.MaxInvalid = 0
	}
	// augments whose target path runs through an implicit case are applied
	// (or not) after the implicit cases were inserted: the tree must be proper
	// all the same
	p.LateAugments = t.Sub("late").Chance(1, 5)
	g := model.Generate(t.Sub("scenario"), p)
	c.Scenario = g.S
	c.Injected = g.Injected
	// one module may be loaded in two revisions, with some importers (also
	// augmenting ones) pinned to the older: an error may then land in a tree
	// that is not the one filed under the bare name
	if name := addOlderRevision(t.Sub("revisions"), g.S, 8); name != "" {
		c.Injected = append(c.Injected, "two-revisions-of-"+name)
	}
	names := sortedNames(model.RenderAll(g.S))
	st := t.Sub("schedule")
	c.Order = permuted(st, names)
	c.Sched = maporder.Random(st)
	if st.Chance(1, 4) {
		c.Sched = maporder.Canonical()
	}
	c.Twice = st.Chance(1, 4)
	ot := t.Sub("options")
	c.Options.StoreUses = ot.Chance(1, 4)
	c.Options.IgnoreNotSupported = ot.Chance(1, 6)
	return c
}

func (c04Driver) Decode(b []byte) (core.Case, error) {
	c := &c04Case{}
	if err := json.Unmarshal(b, c); err != nil {
		return nil, err
	}
	if c.Scenario == nil && len(c.Rendered) == 0 {
		return nil, fmt.Errorf("C04 case without sources")
	}
	return c, nil
}

func (c04Driver) Finalize(cc core.Case) {
	c := cc.(*c04Case)
	if len(c.Rendered) == 0 {
		c.Rendered = c.texts()
	}
}

func countNodes(ms *yang.Modules) int {
	n := 0
	seen := map[*yang.Entry]bool{}
	var walk func(e *yang.Entry, d int)
	walk = func(e *yang.Entry, d int) {
		if e == nil || d > 300 || seen[e] {
			return
		}
		seen[e] = true
		n++
		for _, c := range e.Dir {
			walk(c, d+1)
		}
		if e.RPC != nil {
			walk(e.RPC.Input, d+1)
			walk(e.RPC.Output, d+1)
		}
	}
	for _, m := range dump.DistinctModules(ms.Modules) {
		walk(yang.ToEntry(m), 0)
	}
	return n
}

func (c04Driver) Run(cc core.Case) core.Outcome {
	c := cc.(*c04Case)
	var o core.Outcome
	o.Key = tape.Hash64(core.MarshalCase(c))
	texts := c.texts()
	order := c.Order
	if len(order) == 0 {
		order = sortedNames(texts)
	}
	spec := &world.Spec{Texts: texts, Sched: c.Sched, Options: c.Options}
	for _, n := range order {
		if _, ok := texts[n]; ok {
			spec.Ops = append(spec.Ops, world.Op{Op: "parse", Name: n})
		}
	}
	spec.Ops = append(spec.Ops, world.Op{Op: "process"})
	if c.Twice {
		spec.Ops = append(spec.Ops, world.Op{Op: "process"})
	}
	// world.Exec keeps the hooks installed only while it runs; the invariant
	// walk below only reads, except for the deliberate Find calls.
	res := world.Exec(spec)
	o.Ticks = res.Ticks
	addRecorder(&o, res.Rec)
	if p := res.FirstPanic(); p != nil {
		o.Count("other_oracle.c01_would_fire", 1)
		o.Discard = "crash"
		return o
	}
	last := res.Ops[len(res.Ops)-1]
	clean := len(last.Errs) == 0
	mustReport := ""
	lateAug := false
	if c.Scenario != nil {
		for _, m := range c.Scenario.Mods {
			for _, a := range m.Augments {
				if a.Late {
					lateAug = true
				}
			}
		}
	}
	if lateAug {
		o.Count("probe.augment_through_implicit_case", 1)
		if clean {
			o.Count("probe.augment_through_implicit_case_and_clean", 1)
		}
	}
	if c.Scenario != nil && len(latestOnly(c.Scenario).Mods) == len(c.Scenario.Mods) {
		// (with two revisions of a module loaded and importers pinned to the
		// older one, a collision the reference model sees among the latest
		// revisions may not arise: the invariant alone is checked then)
		if why := model.MustReportWith(c.Scenario, c.Options.IgnoreNotSupported); len(why) > 0 {
			mustReport = why[0]
		}
	}
	if !clean {
		if mustReport != "" {
			o.Count("probe.injected_conflict_reported", 1)
			o.Nontrivial = true
		} else {
			o.Count("probe.process_reports_errors", 1)
		}
		o.State = tape.Hash64([]byte(strings.Join(last.Errs, "\n")))
		return o
	}
	if mustReport != "" && c.Scenario != nil {
		o.Fail("clean-despite-conflict", "Process returned no errors although the reference model finds: %s", mustReport)
		return o
	}
	o.Count("probe.clean_process", 1)
	ms := res.MS
	check := func(stage string) bool {
		var bad []string
		func() {
			defer func() {
				if r := recover(); r != nil {
					bad = append(bad, fmt.Sprintf("walking the trees panicked: %v", r))
				}
			}()
			bad = dump.Invariants(ms)
		}()
		if len(bad) > 0 {
			class := "invariant"
			switch {
			case strings.Contains(bad[0], "recorded error") || strings.Contains(bad[0], "GetErrors"):
				class = "clean-but-errors-recorded"
			case strings.Contains(bad[0], "shared between"):
				class = "node-shared"
			case strings.Contains(bad[0], "parent link"):
				class = "parent-link"
			case strings.Contains(bad[0], "not a case"):
				class = "choice-member-not-case"
			case strings.Contains(bad[0], "left unapplied"):
				class = "augment-left"
			}
			o.Fail(class, "%s: %d invariant violation(s) after a clean Process (load order %v, non-sorted sites %v):\n  %s", stage, len(bad), order, culpritSites(c.Sched), strings.Join(bad, "\n  "))
			o.Culprits = culpritSites(c.Sched)
			return false
		}
		return true
	}
	if !check("after Process") {
		return o
	}
	if countNodes(ms) >= 10 {
		o.Nontrivial = true
	}
	// reads that mutate: Find creates rpc input/output on demand
	created := 0
	var paths []string
	visited := map[*yang.Entry]bool{}
	var walk func(e *yang.Entry, d int)
	walk = func(e *yang.Entry, d int) {
		if e == nil || d > 100 || visited[e] {
			return
		}
		visited[e] = true
		if e.RPC != nil {
			if e.RPC.Input == nil || e.RPC.Output == nil {
				created++
			}
			e.Find("input")
			e.Find("output")
		}
		paths = append(paths, e.Path())
		ks := make([]string, 0, len(e.Dir))
		for k := range e.Dir {
			ks = append(ks, k)
		}
		sort.Strings(ks)
		for _, k := range ks {
			walk(e.Dir[k], d+1)
		}
		if e.RPC != nil {
			walk(e.RPC.Input, d+1)
			walk(e.RPC.Output, d+1)
		}
	}
	func() {
		defer func() {
			if r := recover(); r != nil {
				o.Count("other_oracle.c01_would_fire", 1)
			}
		}()
		for _, m := range dump.DistinctModules(ms.Modules) {
			walk(yang.ToEntry(m), 0)
		}
	}()
	if created > 0 {
		o.Count("probe.rpc_input_output_created_on_demand", int64(created))
		if !check("after Find created rpc input/output on demand") {
			return o
		}
	}
	o.State = tape.Hash64([]byte(strings.Join(paths, "\n")))
	return o
}

func (c04Driver) Shrink(cc core.Case) []core.Case {
	c := cc.(*c04Case)
	var out []core.Case
	clone := func() *c04Case {
		b, _ := json.Marshal(c)
		n := &c04Case{}
		json.Unmarshal(b, n)
		if n.Scenario != nil {
			n.Rendered = nil
		}
		return n
	}
	if c.Twice {
		n := clone()
		n.Twice = false
		out = append(out, n)
	}
	names := sortedNames(c.texts())
	if !isIdentity(c.Order, names) {
		n := clone()
		n.Order = names
		out = append(out, n)
	}
	for _, s := range schedShrinks(c.Sched) {
		n := clone()
		n.Sched = s
		out = append(out, n)
	}
	if c.Scenario != nil {
		for _, s := range model.ShrinkScenario(c.Scenario) {
			n := clone()
			n.Scenario = s
			n.Order = fixOrder(n.Order, sortedNames(model.RenderAll(s)))
			out = append(out, n)
		}
	}
	if c.Options != (world.Options{}) {
		n := clone()
		n.Options = world.Options{}
		out = append(out, n)
	}
	return out
}

// fixOrder keeps the relative order of the names that still exist and appends new ones.
func fixOrder(order, names []string) []string {
	ok := map[string]bool{}
	for _, x := range names {
		ok[x] = true
	}
	var out []string
	have := map[string]bool{}
	for _, x := range order {
		if ok[x] && !have[x] {
			out = append(out, x)
			have[x] = true
		}
	}
	for _, x := range names {
		if !have[x] {
			out = append(out, x)
		}
	}
	return out
}

func (c04Driver) Describe(cc core.Case) string {
	c := cc.(*c04Case)
	var sb strings.Builder
	t := c.texts()
	for _, n := range sortedNames(t) {
		fmt.Fprintf(&sb, "---- %s\n%s\n", n, t[n])
	}
	fmt.Fprintf(&sb, "---- order=%v twice=%v options=%+v injected=%v sites=%v\n", c.Order, c.Twice, c.Options, c.Injected, culpritSites(c.Sched))
	return sb.String()
}
