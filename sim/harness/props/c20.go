package props

import (
	"bytes"
	"encoding/json"
	"errors"
	"fmt"
	"io"
	"sort"
	"unicode/utf8"

	"github.com/openconfig/goyang/pkg/indent"
	"github.com/openconfig/goyang/zzverif/core"
	"github.com/openconfig/goyang/zzverif/tape"
)

// C20 — indent writer: chunk independence and truthful byte accounting.
//
// Simulated components: the io.Writer under the indent writer (the "disk": it
// accepts a seeded number of bytes and then fails, or accepts everything and
// still reports an error) and the caller's division of the text into Write
// calls.  Real code: indent.NewWriter / Write / String / Bytes.

type c20Case struct {
	Text string `json:"text"`
	// Prefixes[0] belongs to the writer directly above the sink, the last one
	// to the writer the caller writes to.
	Prefixes []string `json:"prefixes"`
	// Cuts are the byte offsets at which the text is divided into successive
	// Write calls (sorted; duplicates give empty chunks).
	Cuts []int `json:"cuts"`
	// Fault: "none", "stop" / "stop-nil" (the sink accepts FaultAt bytes in total, then
	// returns a short count and an error) or "err-after-accept" (the sink's
	// FaultAt-th call accepts everything and still returns an error).
	Fault   string `json:"fault"`
	FaultAt int    `json:"fault_at"`
}

type c20Driver struct{}

func init() { core.Register(c20Driver{}) }

func (c20Driver) ID() string { return "C20" }

func (c20Driver) Tier(t string) core.Tier {
	if t == "thorough" {
		return core.Tier{Runs: 250_000_000, AnnounceEvery: 50000}
	}
	return core.Tier{Runs: 1_200_000, AnnounceEvery: 5000}
}

func (c20Driver) Info() core.Info {
	return core.Info{
		Rule: "A case is (text of 0-24 runes over {a,b,é,LF,space,tab} — in one case of 60 repeated up to about 512, 4096 or 8192 bytes —, 1-3 nested indent writers with prefixes from a fixed set incl. empty, multi-byte and LF-containing ones, a division of the text into 1-8 Write calls at byte offsets (empty chunks and splits inside a rune included), and a sink fault: none / stop after p bytes in total / error after full accept on call k). " +
			"A case is non-trivial when the text is non-empty, at least one prefix is non-empty, and it has >= 2 non-empty chunks or its fault fired. Two cases are distinct when their explicit descriptions differ.",
		Assumptions: []string{
			"the underlying writer honours the io.Writer contract (n < len(p) implies a non-nil error); a sink that returns a short count with a nil error is not simulated",
			"the state of an indent writer after a failed Write is unspecified by the property: a run ends at the first failing Write",
			"with nested writers 'the caller's bytes that reached the underlying writer' is read compositionally (each level counts the bytes of its own caller); because rendering is monotone this equals byte provenance from the top-level caller to the bottom sink, which is what the oracle computes",
		},
		Real:            []string{"indent.NewWriter", "(*iw).Write", "actualWrittenSize", "indent.String", "indent.Bytes"},
		Stub:            []string{"underlying io.Writer (simulated sink with seeded stop point / error)", "caller's division into Write calls (seeded)"},
		FaultKinds:      []string{"sink-stop-short", "sink-stop-short-without-error", "sink-error-after-full-accept"},
		InProcessShrink: true,
	}
}

// (texts: 0-24 runes; one case in 60 repeats its text up to about 512, 4096 or 8192 bytes)
var c20Runes = []rune{'a', 'b', 'é', '\n', ' ', '\t'}
var c20Prefixes = []string{"", " ", "  ", "// ", "é", "\n", "ab\n", "\t", "x"}

func (c20Driver) Generate(t *tape.Tape, tier string) core.Case {
	c := &c20Case{}
	n := t.Weighted(1, 3, 3, 3, 3, 3, 3, 2, 2, 2, 2, 2, 2, 1, 1, 1, 1, 1, 1, 1, 1, 1, 1, 1, 1)
	var b []byte
	nlWeight := []int{3, 3, 1, 6, 2, 1}
	if t.Chance(1, 4) {
		nlWeight = []int{2, 1, 1, 1, 1, 1}
	}
	for i := 0; i < n; i++ {
		b = utf8.AppendRune(b, c20Runes[t.Weighted(nlWeight...)])
	}
	if lt := t.Sub("long"); lt.Chance(1, 60) && len(b) > 0 {
		// a long text (around a power of two): a writer that manages a buffer of
		// its own meets its growth and boundary arithmetic only there
		L := []int{511, 512, 513, 4095, 4096, 4097, 8191, 8192, 8193}[lt.Intn(9)] + lt.Range(-1, 1)
		unit := b
		for len(b) < L {
			b = append(b, unit...)
		}
		b = b[:L]
		for len(b) > 0 && !utf8.Valid(b) { // (do not end inside a rune)
			b = b[:len(b)-1]
		}
	}
	c.Text = string(b)
	depth := 1 + t.Weighted(6, 3, 1)
	for i := 0; i < depth; i++ {
		c.Prefixes = append(c.Prefixes, c20Prefixes[t.Weighted(1, 4, 4, 3, 2, 1, 1, 1, 2)])
	}
	ncuts := t.Weighted(2, 4, 4, 3, 2, 1, 1, 1)
	for i := 0; i < ncuts; i++ {
		c.Cuts = append(c.Cuts, t.Intn(len(b)+1))
	}
	sort.Ints(c.Cuts)
	// fault
	ref, _ := c20Reference(c.Prefixes, b)
	switch t.Weighted(3, 6, 1) {
	case 0:
		c.Fault = "none"
	case 1:
		c.Fault = "stop"
		switch {
		case len(ref) == 0:
			c.FaultAt = 0
		case t.Chance(3, 10):
			// bias: right after a line break or inside a prefix that follows one
			var cand []int
			for i, x := range ref {
				if x == '\n' {
					cand = append(cand, i+1, i+2)
				}
			}
			if len(cand) == 0 {
				c.FaultAt = t.Intn(len(ref) + 1)
			} else {
				c.FaultAt = cand[t.Intn(len(cand))]
				if c.FaultAt > len(ref) {
					c.FaultAt = len(ref)
				}
			}
		default:
			c.FaultAt = t.Intn(len(ref) + 1)
		}
	case 2:
		c.Fault = "err-after-accept"
		c.FaultAt = t.Intn(ncuts + 1)
	}
	if c.Fault == "stop" && t.Sub("nilerr").Chance(1, 5) {
		// the sink stops short WITHOUT reporting an error (writers that break
		// io.Writer's contract exist): the bytes still did not reach it
		c.Fault = "stop-nil"
	}
	return c
}

func (c20Driver) Decode(b []byte) (core.Case, error) {
	c := &c20Case{}
	if err := json.Unmarshal(b, c); err != nil {
		return nil, err
	}
	if len(c.Prefixes) == 0 {
		return nil, errors.New("C20 case without prefixes")
	}
	return c, nil
}

// c20Render is the harness's own statement of what indenting means: the
// prefix at the start of every line, nothing after the final line break.  src
// carries, for every output byte, the index of the caller byte it is the image
// of, or -1 for a prefix byte.
func c20Render(prefix string, in []byte, inSrc []int) ([]byte, []int) {
	if prefix == "" || len(in) == 0 {
		return in, inSrc
	}
	var out []byte
	var src []int
	atLineStart := true
	for i, x := range in {
		if atLineStart {
			for j := 0; j < len(prefix); j++ {
				out = append(out, prefix[j])
				src = append(src, -1)
			}
			atLineStart = false
		}
		out = append(out, x)
		src = append(src, inSrc[i])
		if x == '\n' {
			atLineStart = true
		}
	}
	return out, src
}

// c20Reference renders text through all levels (outermost prefix first).
func c20Reference(prefixes []string, text []byte) ([]byte, []int) {
	src := make([]int, len(text))
	for i := range src {
		src[i] = i
	}
	out := text
	for i := len(prefixes) - 1; i >= 0; i-- {
		out, src = c20Render(prefixes[i], out, src)
	}
	return out, src
}

var errSink = errors.New("simulated sink failure")

type c20Sink struct {
	fault    string
	at       int
	accepted []byte
	calls    int
	failed   bool
}

func (s *c20Sink) Write(p []byte) (int, error) {
	call := s.calls
	s.calls++
	switch s.fault {
	case "stop", "stop-nil":
		room := s.at - len(s.accepted)
		if room < 0 {
			room = 0
		}
		if len(p) > room {
			s.accepted = append(s.accepted, p[:room]...)
			s.failed = true
			if s.fault == "stop-nil" {
				return room, nil
			}
			return room, errSink
		}
	case "err-after-accept":
		if call == s.at {
			s.accepted = append(s.accepted, p...)
			s.failed = true
			return len(p), errSink
		}
	}
	s.accepted = append(s.accepted, p...)
	return len(p), nil
}

func (c20Driver) Run(cc core.Case) core.Outcome {
	c := cc.(*c20Case)
	var o core.Outcome
	text := []byte(c.Text)
	o.Key = tape.Hash64(core.MarshalCase(c))

	// One-shot functions against the harness's own rendering.
	for _, p := range c.Prefixes {
		want, _ := c20Render(p, text, make([]int, len(text)))
		if got := indent.String(p, c.Text); got != string(want) {
			o.Fail("oneshot-string", "indent.String(%q, %q) = %q, want %q", p, c.Text, got, want)
			return o
		}
		if got := indent.Bytes([]byte(p), append([]byte(nil), text...)); !bytes.Equal(got, want) {
			o.Fail("oneshot-bytes", "indent.Bytes(%q, %q) = %q, want %q", p, c.Text, got, want)
			return o
		}
	}

	sink := &c20Sink{fault: c.Fault, at: c.FaultAt}
	var w io.Writer = sink
	nonEmptyPrefix := false
	for _, p := range c.Prefixes {
		w = indent.NewWriter(w, p)
		if p != "" {
			nonEmptyPrefix = true
		}
	}
	if c.Fault == "stop-nil" && !nonEmptyPrefix {
		// NewWriter(w, "") is w itself: the contract-breaking sink would be
		// judged, not the indenting writer
		o.Discard = "writer-is-the-sink-itself"
		return o
	}
	if len(c.Prefixes) > 1 {
		o.Count("probe.nested_writers", 1)
	}
	if len(c.Text) >= 500 {
		o.Count("probe.long_text", 1)
	}
	cuts := append([]int{}, c.Cuts...)
	for i := range cuts {
		if cuts[i] > len(text) {
			cuts[i] = len(text)
		}
		if cuts[i] < 0 {
			cuts[i] = 0
		}
	}
	sort.Ints(cuts)
	bounds := append(cuts, len(text))
	pos := 0
	nonEmptyChunks := 0
	for _, end := range bounds {
		chunk := append([]byte(nil), text[pos:end]...)
		if len(chunk) == 0 {
			o.Count("probe.empty_chunk", 1)
		} else {
			nonEmptyChunks++
			if !utf8.RuneStart(chunk[0]) {
				o.Count("probe.chunk_starts_inside_rune", 1)
			}
		}
		continuesPartial := pos > 0 && text[pos-1] != '\n'
		before := len(sink.accepted)
		n, err := w.Write(chunk)
		if !bytes.Equal(chunk, text[pos:end]) {
			o.Fail("caller-buffer-modified", "Write modified its argument: %q -> %q", text[pos:end], chunk)
			return o
		}
		ref, src := c20Reference(c.Prefixes, text[:end])
		if err == nil {
			if sink.failed {
				o.Fail("error-swallowed", "sink failed but Write(%q) returned (%d, nil)", chunk, n)
				return o
			}
			if n != len(chunk) {
				o.Fail("success-count", "successful Write(%q) returned %d, want %d", chunk, n, len(chunk))
				return o
			}
			if !bytes.Equal(sink.accepted, ref) {
				o.Fail("output-mismatch", "after writing %q in chunks %v the sink holds %q, one-shot rendering is %q", text[:end], bounds, sink.accepted, ref)
				return o
			}
			pos = end
			continue
		}
		// failing Write
		if !sink.failed {
			o.Fail("spurious-error", "Write(%q) returned error %v although the sink never failed", chunk, err)
			return o
		}
		switch c.Fault {
		case "stop":
			o.Count("fault.sink-stop-short", 1)
		case "stop-nil":
			o.Count("fault.sink-stop-short-without-error", 1)
		case "err-after-accept":
			o.Count("fault.sink-error-after-full-accept", 1)
		}
		if len(sink.accepted) > len(ref) || !bytes.Equal(sink.accepted, ref[:len(sink.accepted)]) {
			o.Fail("output-mismatch", "at the failing Write(%q) the sink holds %q, which is not a prefix of the one-shot rendering %q", chunk, sink.accepted, ref)
			return o
		}
		want := 0
		for i := 0; i < len(sink.accepted); i++ {
			if src[i] >= pos {
				want++
			}
		}
		// probes: where did the failure land
		if continuesPartial && len(chunk) > 0 {
			o.Count("probe.failure_in_chunk_continuing_partial_line", 1)
		}
		if k := len(sink.accepted); k < len(ref) && src[k] == -1 {
			o.Count("probe.failure_inside_or_before_prefix", 1)
		}
		if k := len(sink.accepted); k > before && sink.accepted[k-1] == '\n' {
			o.Count("probe.failure_right_after_line_break", 1)
		}
		if n != want {
			o.Fail("short-count", "Write(%q) after %q (prefixes %q): sink accepted %q in total, so %d of this chunk's bytes reached it, but Write returned %d", chunk, text[:pos], c.Prefixes, sink.accepted, want, n)
			return o
		}
		if n < 0 || n > len(chunk) {
			o.Fail("short-count", "Write(%q) returned %d outside [0,%d]", chunk, n, len(chunk))
			return o
		}
		break
	}
	o.Nontrivial = len(text) > 0 && nonEmptyPrefix && (nonEmptyChunks >= 2 || sink.failed)
	o.State = tape.Hash64(sink.accepted)
	return o
}

func (c20Driver) Shrink(cc core.Case) []core.Case {
	c := cc.(*c20Case)
	var out []core.Case
	clone := func() *c20Case {
		n := *c
		n.Prefixes = append([]string{}, c.Prefixes...)
		n.Cuts = append([]int{}, c.Cuts...)
		return &n
	}
	if c.Fault != "none" {
		n := clone()
		n.Fault, n.FaultAt = "none", 0
		out = append(out, n)
	}
	if len(c.Prefixes) > 1 {
		for i := range c.Prefixes {
			n := clone()
			n.Prefixes = append(n.Prefixes[:i], n.Prefixes[i+1:]...)
			out = append(out, n)
		}
	}
	// delete one rune
	for i := 0; i < len(c.Text); {
		_, sz := utf8.DecodeRuneInString(c.Text[i:])
		n := clone()
		n.Text = c.Text[:i] + c.Text[i+sz:]
		for k, cut := range n.Cuts {
			if cut > i {
				cut -= sz
				if cut < i {
					cut = i
				}
				n.Cuts[k] = cut
			}
		}
		out = append(out, n)
		i += sz
	}
	for i := range c.Cuts {
		n := clone()
		n.Cuts = append(n.Cuts[:i], n.Cuts[i+1:]...)
		out = append(out, n)
	}
	for i, p := range c.Prefixes {
		if p != " " && p != "" {
			n := clone()
			n.Prefixes[i] = " "
			out = append(out, n)
		}
	}
	if c.FaultAt > 0 {
		n := clone()
		n.FaultAt = c.FaultAt / 2
		out = append(out, n)
		n = clone()
		n.FaultAt = c.FaultAt - 1
		out = append(out, n)
	}
	// simplify runes
	for i := 0; i < len(c.Text); {
		r, sz := utf8.DecodeRuneInString(c.Text[i:])
		if r != 'a' && r != '\n' {
			n := clone()
			n.Text = c.Text[:i] + "a" + c.Text[i+sz:]
			for k, cut := range n.Cuts {
				if cut > i {
					cut -= sz - 1
					if cut < i {
						cut = i
					}
					n.Cuts[k] = cut
				}
			}
			out = append(out, n)
		}
		i += sz
	}
	return out
}

var _ = fmt.Sprintf
