package props

import (
	"encoding/json"
	"fmt"
	"strings"

	"github.com/openconfig/goyang/pkg/yang"
	"github.com/openconfig/goyang/zzverif/core"
	"github.com/openconfig/goyang/zzverif/dump"
	"github.com/openconfig/goyang/zzverif/maporder"
	"github.com/openconfig/goyang/zzverif/model"
	"github.com/openconfig/goyang/zzverif/tape"
	"github.com/openconfig/goyang/zzverif/world"
)

// refCase is the case format of the drivers that compare goyang with the
// reference schema compiler (C06, C07, C08, C11) under several executions.
type refCase struct {
	Scenario *model.Scenario   `json:"scenario"`
	Rendered map[string]string `json:"rendered,omitempty"`
	Options  world.Options     `json:"options,omitempty"`
	// History: "batch" (load all, process), "reprocess" (process twice),
	// "incremental" (load all but Later, process, load Later, process).
	History string   `json:"history"`
	Later   []string `json:"later,omitempty"`
	Runs    []c05Run `json:"runs"`
	// Reshuffle, when non-zero, re-permutes the textual order of the augment
	// statements of every module before rendering (declaration order is not
	// semantic); such a case is compared with the reference only.
	Reshuffle uint64 `json:"reshuffle,omitempty"`
}

func (c *refCase) scenario() *model.Scenario {
	if c.Reshuffle == 0 {
		return c.Scenario
	}
	s := c.Scenario.Clone()
	t := tape.New(c.Reshuffle)
	for _, m := range s.Mods {
		if len(m.Augments) > 1 {
			p := t.Perm(len(m.Augments))
			na := make([]*model.Augment, len(m.Augments))
			for i, j := range p {
				na[i] = m.Augments[j]
			}
			m.Augments = na
		}
	}
	return s
}

func (c *refCase) texts() map[string]string {
	if len(c.Rendered) > 0 {
		return c.Rendered
	}
	return model.RenderAll(c.scenario())
}

// refExtra is a property-specific oracle evaluated on the final state of a
// clean execution of a scenario the reference considers valid.
type refExtra func(c *refCase, ms *yang.Modules, cp *model.Compiled, o *core.Outcome, exec string) bool

type refDriver struct {
	id      string
	quick   int
	thor    int
	info    core.Info
	profile func(t *tape.Tape) model.Profile
	extra   refExtra
	// invariants: also walk the C04 invariant (pointer disjointness)
	invariants bool
	// nonTrivial decides whether a valid scenario exercises the property
	nonTrivial func(s *model.Scenario, cp *model.Compiled) bool
	histories  []int // weights of batch / reprocess / incremental
}

func (d *refDriver) ID() string { return d.id }

func (d *refDriver) Tier(t string) core.Tier {
	if t == "thorough" {
		return core.Tier{Runs: d.thor, AnnounceEvery: 1}
	}
	return core.Tier{Runs: d.quick, AnnounceEvery: 1}
}

func (d *refDriver) Info() core.Info { return d.info }

func (d *refDriver) Generate(t *tape.Tape, tier string) core.Case {
	c := &refCase{}
	g := model.Generate(t.Sub("scenario"), d.profile(t.Sub("profile")))
	c.Scenario = g.S
	if d.id == "C11" {
		// the module that declares a base may be loaded in two revisions, with
		// some importers pinned to the older one
		addOlderRevisionOpt(t.Sub("revisions"), g.S, 5, true)
	}
	names := sortedNames(model.RenderAll(g.S))
	ht := t.Sub("history")
	w := d.histories
	if len(w) == 0 {
		w = []int{4, 1, 1}
	}
	switch ht.Weighted(w...) {
	case 0:
		c.History = "batch"
	case 1:
		c.History = "reprocess"
	case 2:
		c.History = "incremental"
		// load some non-submodule texts later
		for _, n := range names {
			if ht.Chance(1, 3) {
				c.Later = append(c.Later, n)
			}
		}
		if len(c.Later) == 0 || len(c.Later) == len(names) {
			c.Later = nil
			c.History = "reprocess"
		}
	}
	k := 3
	if tier == "thorough" {
		k = 6
	}
	st := t.Sub("schedules")
	for i := 0; i < k; i++ {
		r := c05Run{Order: permuted(st, names), Sched: maporder.Random(st)}
		if i == 0 {
			r.Sched = maporder.Canonical()
		}
		c.Runs = append(c.Runs, r)
	}
	if t.Chance(1, 5) {
		c.Reshuffle = t.Uint64() | 1
	}
	ot := t.Sub("options")
	c.Options.StoreUses = ot.Chance(1, 5)
	if d.id == "C08" {
		c.Options.IgnoreNotSupported = ot.Chance(1, 4)
	}
	return c
}

func (d *refDriver) Decode(b []byte) (core.Case, error) {
	c := &refCase{}
	if err := json.Unmarshal(b, c); err != nil {
		return nil, err
	}
	if c.Scenario == nil {
		return nil, fmt.Errorf("%s case without scenario", d.id)
	}
	return c, nil
}

func (d *refDriver) Finalize(cc core.Case) {
	c := cc.(*refCase)
	c.Rendered = nil
	c.Rendered = c.texts()
}

// execute runs one execution of the case's history.
func (c *refCase) execute(texts map[string]string, order []string, sched *maporder.Schedule) *world.Result {
	later := map[string]bool{}
	if c.History == "incremental" {
		for _, n := range c.Later {
			later[n] = true
		}
	}
	spec := &world.Spec{Texts: texts, Sched: sched, Options: c.Options}
	for _, n := range order {
		if _, ok := texts[n]; ok && !later[n] {
			spec.Ops = append(spec.Ops, world.Op{Op: "parse", Name: n})
		}
	}
	spec.Ops = append(spec.Ops, world.Op{Op: "process"})
	switch c.History {
	case "reprocess":
		spec.Ops = append(spec.Ops, world.Op{Op: "process"})
	case "incremental":
		for _, n := range order {
			if _, ok := texts[n]; ok && later[n] {
				spec.Ops = append(spec.Ops, world.Op{Op: "parse", Name: n})
			}
		}
		spec.Ops = append(spec.Ops, world.Op{Op: "process"})
	}
	return world.Exec(spec)
}

func (d *refDriver) Run(cc core.Case) core.Outcome {
	c := cc.(*refCase)
	var o core.Outcome
	o.Key = tape.Hash64(core.MarshalCase(c))
	texts := c.texts()
	names := sortedNames(texts)
	// the reference model sees the latest revision of every module only
	s := latestOnly(c.scenario())
	if len(s.Mods) != len(c.Scenario.Mods) {
		o.Count("probe.two_revisions_loaded", 1)
	}
	for _, m := range s.Mods {
		if m.IsSub() && s.Mod(m.BelongsTo) == nil {
			// (only shrinking produces this; what goyang says about a submodule
			// whose module is absent is not this property's business)
			o.Discard = "submodule-without-its-module"
			return o
		}
		if m.IsSub() {
			// (likewise: the generator has every module include all its
			// submodules, as YANG 1.1 requires; shrinking must not drop the include)
			inc := false
			for _, i := range s.Mod(m.BelongsTo).Includes {
				if i.Sub == m.Name {
					inc = true
				}
			}
			if !inc {
				o.Discard = "submodule-not-included-by-its-module"
				return o
			}
		}
	}
	cp := model.CompileWith(s, c.Options.IgnoreNotSupported)
	must := model.MustReportWith(s, c.Options.IgnoreNotSupported)
	execs := append([]c05Run{{Order: names, Sched: maporder.Canonical()}}, c.Runs...)
	var canonText string
	canonCrashed := false
	for i, r := range execs {
		name := "canonical execution"
		if i > 0 {
			name = fmt.Sprintf("execution %d (load order %v, non-sorted sites %v)", i-1, r.Order, culpritSites(r.Sched))
		}
		res := c.execute(texts, fixOrder(r.Order, names), r.Sched)
		o.Ticks += res.Ticks
		if i > 0 {
			addRecorder(&o, res.Rec)
		}
		last := res.Ops[len(res.Ops)-1]
		out := outcomeOf(&world.Result{Ops: []world.OpResult{last}})
		if p := res.FirstPanic(); p != nil {
			out.Crashed = true
			out.Text = "CRASH " + p.Frame + " " + p.Panic + p.Overrun
		}
		if i == 0 {
			canonText, canonCrashed = out.Text, out.Crashed
			o.State = tape.Hash64([]byte(out.Text))
		} else if out.Text != canonText {
			class := "order-dependence"
			if out.Crashed != canonCrashed {
				class = "order-dependent-crash"
			}
			o.Fail(class, "%s differs from the canonical execution (history %s):\n%s", name, c.History, firstDiff(canonText, out.Text))
			o.Culprits = culpritSites(r.Sched)
			return o
		}
		if out.Crashed {
			continue
		}
		if len(must) > 0 {
			if out.Clean {
				o.Fail("invalid-not-reported", "%s: Process returned no errors although the reference model finds: %s", name, strings.Join(must, "; "))
				o.Culprits = culpritSites(r.Sched)
				return o
			}
			o.Count("probe.invalid_reported", 1)
			continue
		}
		if !out.Clean {
			o.Fail("valid-set-reports-errors", "%s: Process reports errors on a set the reference model considers valid (history %s):\n  %s", name, c.History, strings.Join(out.Errs, "\n  "))
			o.Culprits = culpritSites(r.Sched)
			return o
		}
		if diff := refCompare(res.MS, s, cp); diff != "" {
			o.Fail("reference-mismatch", "%s (history %s): the trees differ from the reference compilation:\n%s", name, c.History, diff)
			o.Culprits = culpritSites(r.Sched)
			return o
		}
		if d.invariants {
			if bad := dump.Invariants(res.MS); len(bad) > 0 {
				o.Fail("instances-share-structure", "%s: %s", name, strings.Join(bad, "\n  "))
				o.Culprits = culpritSites(r.Sched)
				return o
			}
		}
		if d.extra != nil && !d.extra(c, res.MS, cp, &o, name) {
			o.Culprits = append(o.Culprits, culpritSites(r.Sched)...)
			return o
		}
	}
	if canonCrashed {
		o.Count("other_oracle.c01_would_fire", 1)
		o.Discard = "crash-under-every-schedule"
		return o
	}
	if len(must) > 0 {
		o.Nontrivial = true
		return o
	}
	o.Count("probe.valid_clean_and_equal_to_reference", 1)
	o.Count("probe.history_"+c.History, 1)
	if cp.AugLate > 0 {
		o.Count("probe.augment_applied_after_implicit_case_insertion", 1)
	}
	if cp.AugPasses > 2 {
		o.Count("probe.augment_applied_on_retry_pass_ge_2", 1)
	}
	if d.nonTrivial == nil || d.nonTrivial(s, cp) {
		o.Nontrivial = true
	}
	return o
}

func (d *refDriver) Shrink(cc core.Case) []core.Case {
	c := cc.(*refCase)
	var out []core.Case
	clone := func() *refCase {
		b, _ := json.Marshal(c)
		n := &refCase{}
		json.Unmarshal(b, n)
		n.Rendered = nil
		return n
	}
	if len(c.Runs) > 1 {
		for i := range c.Runs {
			n := clone()
			n.Runs = []c05Run{n.Runs[i]}
			out = append(out, n)
		}
	}
	if len(c.Runs) == 1 {
		n := clone()
		n.Runs = nil
		out = append(out, n)
	}
	if c.History != "batch" {
		n := clone()
		n.History, n.Later = "batch", nil
		out = append(out, n)
	}
	if c.Reshuffle != 0 {
		n := clone()
		n.Reshuffle = 0
		out = append(out, n)
	}
	if len(c.Runs) == 1 {
		r := c.Runs[0]
		names := sortedNames(c.texts())
		if !isIdentity(fixOrder(r.Order, names), names) {
			n := clone()
			n.Runs[0].Order = names
			out = append(out, n)
		}
		for _, s := range schedShrinks(r.Sched) {
			n := clone()
			n.Runs[0].Sched = s
			out = append(out, n)
		}
	}
	for _, s := range model.ShrinkScenario(c.Scenario) {
		n := clone()
		n.Scenario = s
		out = append(out, n)
	}
	if c.Options != (world.Options{}) {
		n := clone()
		n.Options = world.Options{}
		out = append(out, n)
	}
	return out
}

func (d *refDriver) Describe(cc core.Case) string {
	c := cc.(*refCase)
	var sb strings.Builder
	t := c.texts()
	for _, n := range sortedNames(t) {
		fmt.Fprintf(&sb, "---- %s\n%s\n", n, t[n])
	}
	fmt.Fprintf(&sb, "---- history=%s later=%v options=%+v reshuffle=%d\n", c.History, c.Later, c.Options, c.Reshuffle)
	for i, r := range c.Runs {
		fmt.Fprintf(&sb, "run %d: order=%v sites=%v\n", i, r.Order, culpritSites(r.Sched))
	}
	fmt.Fprintf(&sb, "must report: %v\n", model.MustReportWith(latestOnly(c.scenario()), c.Options.IgnoreNotSupported))
	return sb.String()
}
