package props

import (
	"encoding/json"
	"fmt"
	"sort"
	"strings"

	"github.com/openconfig/goyang/zzverif/core"
	"github.com/openconfig/goyang/zzverif/maporder"
	"github.com/openconfig/goyang/zzverif/model"
	"github.com/openconfig/goyang/zzverif/tape"
	"github.com/openconfig/goyang/zzverif/world"
)

// C18 — re-processing, incremental loading and failed loads do not skew results.
//
// Simulated: the history of load(good) / load(bad) / process / query calls on
// one Modules (seeded), storage damage that turns good texts into bad ones
// (short, torn, bit-flipped, duplicated-block copies), map order.
// Oracle: after every Process the (errors | full dump) equal those of a fresh
// Modules that loads exactly the texts accepted so far, in the same order, and
// processes once under the same map order.

// badSpec derives a damaged or rejected text from a good one.
type badSpec struct {
	Name string `json:"name"` // source name of the derived text
	From string `json:"from"` // file name of the good text it is derived from
	Kind string `json:"kind"` // short | torn | flip | dupblock | raw | toplevel | garbage
	A    int    `json:"a,omitempty"`
	B    int    `json:"b,omitempty"`
	Raw  string `json:"raw,omitempty"` // kind raw: spliced before the module's closing brace; toplevel: the whole text
}

type c18Case struct {
	Scenario *model.Scenario    `json:"scenario"`
	Bad      []badSpec          `json:"bad,omitempty"`
	Ops      []world.Op         `json:"ops"`
	Sched    *maporder.Schedule `json:"sched"`
	Options  world.Options      `json:"options,omitempty"`
	Rendered map[string]string  `json:"rendered,omitempty"`
	// OnDisk lists good texts that are never parsed directly: they exist only
	// as lib1/<name> on the simulated disk, next to copies of every bad text
	// (lib1/, lib2/) and of every other good text (lib2/).  Histories of such
	// cases also load by Read(path).
	OnDisk []string `json:"on_disk,omitempty"`
}

// disk returns the simulated disk content of the case (nil without OnDisk).
func (c *c18Case) disk(texts map[string]string) map[string]string {
	if len(c.OnDisk) == 0 {
		return nil
	}
	only := map[string]bool{}
	for _, n := range c.OnDisk {
		only[n] = true
	}
	bad := map[string]bool{}
	for _, b := range c.Bad {
		bad[b.Name] = true
	}
	d := map[string]string{}
	for n, t := range texts {
		switch {
		case only[n]:
			d["lib1/"+n] = t
		case bad[n]:
			d["lib1/"+n] = t
			d["lib2/"+n] = t
		default:
			d["lib2/"+n] = t
		}
	}
	return d
}

var c18Raws = []string{
	"  leaf zz1 { }\n",                                 // missing mandatory substatement (type)
	"  bogus-statement 1;\n",                           // unknown keyword in context
	"  container zz2 { config true; config false; }\n", // second occurrence of a single-valued substatement
	"  leaf zz3 { type string; type string; }\n",       // duplicated type
	"  container zz4 { typedef zt { type string; } list zz5 { typedef zt2 { type zt; } frobnicate; } }\n", // typedefs at nested scope, then an unknown keyword
	"  grouping zg { typedef zt3 { type nosuchtype; } leaf zl { type zt3; } } import;\n",                  // nested typedef, then a rejected import
	"  leaf zz6 { type string; default \"a\\qb\"; }\n",                                                    // bad escape
	"  container zz7 {\n", // unbalanced brace
	"  leaf zz8 { type string; description \"unterminated; }\n",
	"  typedef zt4 { type zt4; } leaf zz9 { }\n", // self-referential typedef registered, then rejection
}

func derive(good map[string]string, b badSpec) (string, bool) {
	if b.Kind == "toplevel" {
		return b.Raw, true
	}
	src, ok := good[b.From]
	if !ok || len(src) == 0 {
		return "", false
	}
	t := []byte(src)
	switch b.Kind {
	case "short":
		return string(t[:b.A%len(t)]), true
	case "torn":
		a := b.A % len(t)
		l := 1 + b.B%(len(t)-a)
		return string(append(append([]byte{}, t[:a]...), t[a+l:]...)), true
	case "flip":
		i := (b.A / 8) % len(t)
		t[i] ^= 1 << (uint(b.A) % 8)
		return string(t), true
	case "garbage":
		x := uint64(b.A)*2654435761 + 1
		for k := 0; k < 30+b.B%40; k++ {
			x = x*6364136223846793005 + 1442695040888963407
			i := int(x>>33) % len(t)
			t[i] ^= 1 << (uint(x>>29) % 8)
		}
		return string(t), true
	case "dupblock":
		a := b.A % len(t)
		l := 1 + b.B%(len(t)-a)
		nb := append([]byte{}, t[:a+l]...)
		nb = append(nb, t[a:a+l]...)
		nb = append(nb, t[a+l:]...)
		return string(nb), true
	case "raw":
		i := strings.LastIndex(src, "}")
		if i < 0 {
			return "", false
		}
		return src[:i] + b.Raw + src[i:], true
	}
	return "", false
}

func (c *c18Case) texts() map[string]string {
	if len(c.Rendered) > 0 {
		return c.Rendered
	}
	good := model.RenderAll(c.Scenario)
	out := map[string]string{}
	for k, v := range good {
		out[k] = v
	}
	for _, b := range c.Bad {
		if t, ok := derive(good, b); ok {
			out[b.Name] = t
		}
	}
	return out
}

type c18Driver struct{}

func init() { core.Register(c18Driver{}) }

func (c18Driver) ID() string { return "C18" }

func (c18Driver) Tier(t string) core.Tier {
	if t == "thorough" {
		return core.Tier{Runs: 600_000, AnnounceEvery: 1}
	}
	return core.Tier{Runs: 30_000, AnnounceEvery: 1}
}

func (c18Driver) Info() core.Info {
	return core.Info{
		Rule: "A case is a generated module set, a set of derived bad texts (storage damage of a good text: short, torn, bit-flipped, garbage, duplicated block; or a rejected statement spliced into a good module after its typedefs/groupings: missing mandatory substatement, unknown keyword, duplicated single-valued substatement, bad escape, unbalanced brace, unterminated string; or a top-level non-module), and a history of 3-14 operations over {Parse(good), Parse(good again), Parse(bad), Process, GetModule (which processes the set itself; compared with a fresh set performing the same GetModule), query (ToEntry walk, Find, GetErrors, Namespace, InstantiatingModule, ReadOnly, default accessors, Print)} on one Modules under a seeded map-order schedule. " +
			"After every Process the outcome must equal that of a fresh Modules loading exactly the accepted texts in the same order and processing once (same schedule). Non-trivial: the history contains a Process that is preceded by a failed load, an earlier Process, or a query. Distinct = distinct case descriptions.",
		Assumptions: []string{
			"one module per text (the documented caveat about several modules in one text is outside the claim)",
			"'accepted' means Parse returned nil: a damaged text that is still valid YANG counts as a good text",
			"three quarters of the cases load by Parse only, on an empty simulated disk (Process-triggered file lookups fail identically in the history and in the batch run); in the others some good texts exist only under lib1/ of the simulated disk, copies of the bad texts under lib1/ and lib2/, and histories also load by Read(path): the batch run repeats the successful Reads (whose documented effect on the search path is intended) and none of the failed ones",
			"the batch run uses the same map-order schedule as the history (order dependence is C05's business)",
		},
		Real:       []string{"lexer", "parser", "AST builder incl. typedef registration", "Modules.add", "Process (include/import binding, identity and typedef resolution, ToEntry, augment, deviation)", "read API"},
		Stub:       []string{"sequence of API calls (seeded history)", "storage damage applied to texts (seeded)", "Go map iteration order (seeded)", "disk (simulated: empty, or lib1/ and lib2/ holding the texts)"},
		FaultKinds: []string{"text-short", "text-torn", "text-flip", "text-garbage", "text-dupblock", "rejected-statement", "toplevel-non-module", "read-of-rejected-text"},
	}
}

func (c18Driver) Generate(t *tape.Tape, tier string) core.Case {
	c := &c18Case{}
	p := profGeneral(t.Sub("profile"))
	// one set in eight holds no typedef at all
	p.NoTypedefs = t.Sub("no-typedefs").Chance(1, 8)
	if t.Chance(2, 3) {
		p.MaxInvalid = 0
	}
	g := model.Generate(t.Sub("scenario"), p)
	c.Scenario = g.S
	// a module may be in the set in two revisions: whatever was bound or
	// resolved against the older one must follow when the newer one arrives
	addOlderRevision(t.Sub("revisions"), g.S, 5)
	good := model.RenderAll(g.S)
	names := sortedNames(good)
	bt := t.Sub("bad")
	nb := bt.Weighted(1, 3, 3, 2)
	for i := 0; i < nb; i++ {
		b := badSpec{Name: fmt.Sprintf("bad%d.yang", i), From: names[bt.Intn(len(names))]}
		switch bt.Weighted(2, 2, 3, 1, 1, 8, 1) {
		case 0:
			b.Kind, b.A = "short", bt.Intn(4096)
		case 1:
			b.Kind, b.A, b.B = "torn", bt.Intn(4096), bt.Intn(64)
		case 2:
			b.Kind, b.A = "flip", bt.Intn(1<<15)
		case 3:
			b.Kind, b.A, b.B = "garbage", bt.Intn(1<<15), bt.Intn(64)
		case 4:
			b.Kind, b.A, b.B = "dupblock", bt.Intn(4096), bt.Intn(64)
		case 5:
			b.Kind, b.Raw = "raw", c18Raws[bt.Intn(len(c18Raws))]
			if bt.Chance(1, 2) {
				// statement soup (see C05): mostly rejected by the AST builder, at
				// varying depth and after varying side effects
				b.Raw = genSoup(bt)
			}
		case 6:
			b.Kind, b.Raw = "toplevel", []string{"container top { leaf x { type string; } }\n", "foo bar;\n", "typedef tt { type string; }\n", "leaf;\n", ""}[bt.Intn(5)]
		}
		c.Bad = append(c.Bad, b)
	}
	ht := t.Sub("history")
	var modNames []string // names GetModule is asked for: modules, not submodules
	for _, m := range g.S.Mods {
		if !m.IsSub() {
			modNames = append(modNames, m.Name)
		}
	}
	pendingGood := permuted(ht, names)
	// a quarter of the cases keep some good texts on the simulated disk only
	// and also load by Read(path): a failed Read must not leave its directory
	// on the search path
	wRead := 0
	if dt := t.Sub("disk"); len(names) >= 2 && dt.Chance(1, 4) {
		k := dt.Range(1, len(names)-1)
		c.OnDisk = append(c.OnDisk, pendingGood[len(pendingGood)-k:]...)
		sort.Strings(c.OnDisk)
		pendingGood = pendingGood[:len(pendingGood)-k]
		wRead = 4
	}
	var loaded []string
	n := ht.Range(3, 14)
	for i := 0; i < n; i++ {
		switch ht.Weighted(6, 1, 3, 4, 2, 2, wRead) {
		case 0:
			if len(pendingGood) > 0 {
				c.Ops = append(c.Ops, world.Op{Op: "parse", Name: pendingGood[0]})
				loaded = append(loaded, pendingGood[0])
				pendingGood = pendingGood[1:]
			}
		case 1:
			if len(loaded) > 0 {
				c.Ops = append(c.Ops, world.Op{Op: "parse", Name: loaded[ht.Intn(len(loaded))]})
			}
		case 2:
			if len(c.Bad) > 0 {
				c.Ops = append(c.Ops, world.Op{Op: "parse", Name: c.Bad[ht.Intn(len(c.Bad))].Name})
			}
		case 3:
			c.Ops = append(c.Ops, world.Op{Op: "process"})
		case 4:
			c.Ops = append(c.Ops, world.Op{Op: "query", Arg: "/x:nosuch"})
		case 5:
			// GetModule processes the set itself
			c.Ops = append(c.Ops, world.Op{Op: "getmodule", Name: modNames[ht.Intn(len(modNames))]})
		case 6:
			switch {
			case len(c.Bad) > 0 && ht.Chance(1, 2):
				c.Ops = append(c.Ops, world.Op{Op: "read", Name: []string{"lib1/", "lib2/"}[ht.Intn(2)] + c.Bad[ht.Intn(len(c.Bad))].Name})
			case len(pendingGood) > 0:
				c.Ops = append(c.Ops, world.Op{Op: "read", Name: "lib2/" + pendingGood[0]})
				loaded = append(loaded, pendingGood[0])
				pendingGood = pendingGood[1:]
			}
		}
	}
	switch ht.Weighted(2, 2, 1) {
	case 0:
		c.Ops = append(c.Ops, world.Op{Op: "process"})
	case 1:
		c.Ops = append(c.Ops, world.Op{Op: "process"}, world.Op{Op: "process"})
	case 2:
		c.Ops = append(c.Ops, world.Op{Op: "getmodule", Name: modNames[ht.Intn(len(modNames))]})
	}
	c.Sched = maporder.RandomStable(t.Sub("sched"))
	if t.Chance(1, 3) {
		c.Sched = maporder.Canonical()
	}
	ot := t.Sub("options")
	c.Options.StoreUses = ot.Chance(1, 5)
	c.Options.IgnoreNotSupported = ot.Chance(1, 8)
	c.Options.IgnoreCircDeps = ot.Chance(1, 8)
	return c
}

func (c18Driver) Decode(b []byte) (core.Case, error) {
	c := &c18Case{}
	if err := json.Unmarshal(b, c); err != nil {
		return nil, err
	}
	if c.Scenario == nil && len(c.Rendered) == 0 {
		return nil, fmt.Errorf("C18 case without sources")
	}
	return c, nil
}

func (c18Driver) Finalize(cc core.Case) {
	c := cc.(*c18Case)
	if len(c.Rendered) == 0 {
		c.Rendered = c.texts()
	}
}

func (c18Driver) Run(cc core.Case) core.Outcome {
	c := cc.(*c18Case)
	var o core.Outcome
	o.Key = tape.Hash64(core.MarshalCase(c))
	if noRevPair(c.Scenario) {
		o.Discard = "input-class-of-open-finding-C13-norev"
		return o
	}
	texts := c.texts()
	kind := map[string]string{}
	for _, b := range c.Bad {
		kind[b.Name] = b.Kind
	}
	disk := c.disk(texts)
	spec := &world.Spec{Texts: texts, Disk: disk, Sched: c.Sched, Options: c.Options, Ops: c.Ops}
	res := world.Exec(spec)
	o.Ticks += res.Ticks
	addRecorder(&o, res.Rec)
	var accepted []world.Op
	failedLoads, processes, queries := 0, 0, 0
	var state strings.Builder
	for i, r := range res.Ops {
		if r.Panic != "" || r.Overrun != "" {
			// A crash is C01's business unless the batch run of the accepted
			// texts does not crash: then the history is what broke it.
			final := world.Op{Op: "process"}
			if r.Op.Op == "getmodule" {
				final = r.Op
			}
			batch := runBatchOps(texts, disk, accepted, c.Sched, c.Options, final)
			o.Ticks += batch.Res.Ticks
			if (r.Op.Op == "process" || r.Op.Op == "getmodule") && !batch.Crashed {
				what := r.Panic
				if r.Overrun != "" {
					what = "simulated " + r.Overrun + " bound exceeded"
				}
				o.Fail("history-crash", "op %d (%s) crashed in %s: %s\nafter the history %s\nwhile a fresh Modules loading the accepted texts %s processes without crashing", i, r.Op.Op, r.Frame, what, opsString(c.Ops[:i+1]), opsString(accepted))
				o.Culprits = []string{"panic:" + r.Frame}
				return o
			}
			o.Count("other_oracle.c01_would_fire", 1)
			o.Count("crash_frame."+r.Frame+"."+r.Overrun, 1)
			o.Discard = "crash-also-in-batch"
			return o
		}
		switch r.Op.Op {
		case "parse", "read":
			tname := r.Op.Name
			if r.Op.Op == "read" {
				tname = strings.TrimPrefix(strings.TrimPrefix(tname, "lib1/"), "lib2/")
				o.Count("probe.load_by_read", 1)
			}
			if r.Err == "" {
				accepted = append(accepted, r.Op)
				if k := kind[tname]; k != "" {
					o.Count("probe.damaged_text_still_accepted", 1)
				}
			} else {
				failedLoads++
				if r.Op.Op == "read" {
					o.Count("probe.failed_read", 1)
					o.Count("fault.read-of-rejected-text", 1)
				}
				switch k := kind[tname]; k {
				case "short", "torn", "flip", "garbage", "dupblock":
					o.Count("fault.text-"+k, 1)
				case "raw":
					o.Count("fault.rejected-statement", 1)
				case "toplevel":
					o.Count("fault.toplevel-non-module", 1)
				default:
					o.Count("probe.good_text_rejected_as_duplicate", 1)
				}
			}
		case "query":
			queries++
		case "process", "getmodule":
			if r.Op.Op == "getmodule" {
				// compared below like a Process; if it read the module from the
				// search path, that is a load the fresh set repeats from now on
			}
			if failedLoads > 0 || processes > 0 || queries > 0 {
				o.Nontrivial = true
			}
			if failedLoads > 0 {
				o.Count("probe.process_after_failed_load", 1)
			}
			if processes > 0 {
				o.Count("probe.reprocess", 1)
			}
			processes++
			hist := outcomeOf(&world.Result{Ops: []world.OpResult{r}})
			batch := runBatchOps(texts, disk, accepted, c.Sched, c.Options, r.Op)
			o.Ticks += batch.Res.Ticks
			if r.Op.Op == "getmodule" {
				o.Count("probe.getmodule_compared", 1)
			}
			// the batch outcome also lists its (successful) loads: compare the process part only
			bproc := outcomeOf(&world.Result{Ops: batch.Res.Ops[len(batch.Res.Ops)-1:]})
			fmt.Fprintf(&state, "%d:%x ", i, tape.Hash64([]byte(hist.Text)))
			if hist.Text != bproc.Text {
				class := "history-skews-result"
				switch {
				case hist.Clean && !bproc.Clean:
					class = "history-hides-errors"
				case !hist.Clean && bproc.Clean:
					class = "history-invents-errors"
				case !hist.Clean && !bproc.Clean:
					class = "history-changes-errors"
				}
				o.Fail(class, "%s at op %d of the history %s\ndiffers from a fresh Modules loading the accepted texts %s and processing once:\n%s", opName(r.Op), i, opsString(c.Ops[:i+1]), opsString(accepted), strings.Replace(strings.Replace(firstDiff(bproc.Text, hist.Text), "canonical:", "batch    :", 1), "this run :", "history  :", 1))
				return o
			}
			// Whatever this call read from the search path on demand is a load
			// that the fresh set repeats (explicitly) from now on.
			for _, src := range r.OnDemand {
				accepted = append(accepted, world.Op{Op: "read", Name: src})
				o.Count("probe.loaded_on_demand", 1)
			}
		}
	}
	o.State = tape.Hash64([]byte(state.String()))
	return o
}

func opName(op world.Op) string {
	if op.Op == "getmodule" {
		return "GetModule(" + op.Name + ")"
	}
	return "Process"
}

// moduleOfFile maps a source name ("m@2020-01-01.yang") to the module name.
func moduleOfFile(n string) string {
	return strings.TrimSuffix(strings.SplitN(n, "@", 2)[0], ".yang")
}

func opsString(ops []world.Op) string {
	var parts []string
	for _, op := range ops {
		switch op.Op {
		case "parse":
			parts = append(parts, "parse("+op.Name+")")
		case "getmodule":
			parts = append(parts, "getmodule("+op.Name+")")
		case "read":
			parts = append(parts, "read("+op.Name+")")
		default:
			parts = append(parts, op.Op)
		}
	}
	return "[" + strings.Join(parts, " ") + "]"
}

func (c18Driver) Shrink(cc core.Case) []core.Case {
	c := cc.(*c18Case)
	var out []core.Case
	clone := func() *c18Case {
		b, _ := json.Marshal(c)
		n := &c18Case{}
		json.Unmarshal(b, n)
		if n.Scenario != nil {
			n.Rendered = nil
		}
		return n
	}
	// drop operations (halves, then singles)
	if len(c.Ops) > 2 {
		n := clone()
		n.Ops = n.Ops[len(n.Ops)/2:]
		out = append(out, n)
		n = clone()
		n.Ops = n.Ops[:len(n.Ops)/2+1]
		out = append(out, n)
	}
	for i := range c.Ops {
		n := clone()
		n.Ops = append(n.Ops[:i], n.Ops[i+1:]...)
		out = append(out, n)
	}
	if c.Scenario != nil {
		for _, s := range model.ShrinkScenario(c.Scenario) {
			n := clone()
			n.Scenario = s
			have := model.RenderAll(s)
			var ops []world.Op
			bad := map[string]bool{}
			var nb []badSpec
			for _, b := range n.Bad {
				if _, ok := have[b.From]; ok || b.Kind == "toplevel" {
					nb = append(nb, b)
					bad[b.Name] = true
				}
			}
			n.Bad = nb
			for _, op := range n.Ops {
				if op.Op == "parse" || op.Op == "read" {
					tn := strings.TrimPrefix(strings.TrimPrefix(op.Name, "lib1/"), "lib2/")
					if _, ok := have[tn]; !ok && !bad[tn] {
						continue
					}
				}
				ops = append(ops, op)
			}
			n.Ops = ops
			var od []string
			for _, x := range n.OnDisk {
				if _, ok := have[x]; ok {
					od = append(od, x)
				}
			}
			n.OnDisk = od
			out = append(out, n)
		}
	}
	for i := range c.Bad {
		if c.Bad[i].Kind != "raw" && c.Bad[i].Kind != "toplevel" {
			continue
		}
	}
	for i := range c.OnDisk {
		n := clone()
		n.OnDisk = append(n.OnDisk[:i], n.OnDisk[i+1:]...)
		out = append(out, n)
	}
	for _, s := range schedShrinks(c.Sched) {
		n := clone()
		n.Sched = s
		out = append(out, n)
	}
	if c.Options != (world.Options{}) {
		n := clone()
		n.Options = world.Options{}
		out = append(out, n)
	}
	return out
}

func (c18Driver) Describe(cc core.Case) string {
	c := cc.(*c18Case)
	var sb strings.Builder
	t := c.texts()
	names := sortedNames(t)
	sort.Strings(names)
	for _, n := range names {
		fmt.Fprintf(&sb, "---- %s\n%s\n", n, t[n])
	}
	fmt.Fprintf(&sb, "---- ops: %s\nsites: %v\n", opsString(c.Ops), culpritSites(c.Sched))
	return sb.String()
}
