package props

import (
	"encoding/json"
	"fmt"
	"path"
	"regexp"
	"sort"
	"strings"

	"github.com/openconfig/goyang/pkg/yang"
	"github.com/openconfig/goyang/zzverif/core"
	"github.com/openconfig/goyang/zzverif/dump"
	"github.com/openconfig/goyang/zzverif/fsim"
	"github.com/openconfig/goyang/zzverif/maporder"
	"github.com/openconfig/goyang/zzverif/model"
	"github.com/openconfig/goyang/zzverif/tape"
	"github.com/openconfig/goyang/zzverif/world"
)

// C13 — names bind to the right module revision; the file chooser; submodules
// merge into their owner.  Three sub-drivers selected by Mode.

// ---- mode "revisions"

type revVariant struct {
	ID   string   `json:"id"`   // marker (leaf v_<id>)
	Name string   `json:"name"` // module or submodule name
	Sub  string   `json:"sub_of,omitempty"`
	Revs []string `json:"revs,omitempty"`
}

type revImporter struct {
	Name    string `json:"name"`
	Target  string `json:"target"` // imported module name, or included submodule name when Include is set
	Rev     string `json:"rev,omitempty"`
	Include bool   `json:"include,omitempty"`
}

// ---- mode "files"

type fileSpec struct {
	Path   string `json:"path"`
	Module string `json:"module"` // name of the module the file contains ("" = not YANG)
}

type c13Case struct {
	Mode string `json:"mode"` // revisions | files | split

	// revisions
	Variants  []revVariant  `json:"variants,omitempty"`
	Importers []revImporter `json:"importers,omitempty"`
	Orders    [][]int       `json:"orders,omitempty"` // load orders over variants (importers are loaded last, in the given rotation)
	// MidProcess > 0: importers are loaded first and a Process is issued after the
	// first MidProcess variants of every order (incremental history): the final
	// binding must still be the prescribed one.
	MidProcess int `json:"mid_process,omitempty"`

	// files
	Files   []fileSpec   `json:"files,omitempty"`
	Dirs    []string     `json:"dirs,omitempty"` // extra empty directories are implied by files only
	Path    []string     `json:"path,omitempty"`
	Want    string       `json:"want,omitempty"` // module name to Read
	Faults  []fsim.Fault `json:"faults,omitempty"`
	PathSep bool         `json:"path_as_one_arg,omitempty"`
	// PriorRead: another module is read from the current directory first (a
	// successful direct read appends its directory to the search path).
	PriorRead bool `json:"prior_read,omitempty"`

	// split
	Scenario *model.Scenario `json:"scenario,omitempty"`
	Split    *model.Scenario `json:"split,omitempty"`
	Runs     []c05Run        `json:"runs,omitempty"`
}

type c13Driver struct{}

func init() { core.Register(c13Driver{}) }

func (c13Driver) ID() string { return "C13" }

func (c13Driver) Tier(t string) core.Tier {
	if t == "thorough" {
		return core.Tier{Runs: 400_000, AnnounceEvery: 1}
	}
	return core.Tier{Runs: 15_000, AnnounceEvery: 1}
}

func (c13Driver) Info() core.Info {
	return core.Info{
		Rule: "Split cases load the module in two revisions, split alike, with probability 1/25 (input class of open finding C13-tworev-sub); references to local definitions are written with the own prefix in a third of the texts. Three kinds of case. (revisions) 1-4 module names and a submodule name with 1-3 texts each that differ in their revision lists (incl. deliberate duplicates of a (name, latest revision) pair), importers / includers with and without revision-date, loaded in all orders when <= 5 texts, else in 6 seeded orders; oracle: a reference binder (bare name = greatest latest revision, name@rev exact, second load of an equal pair rejected and the first stays, Import.Module / Include.Module after Process as prescribed, identical in every order). " +
			"(files) a simulated directory tree (current directory, 1-4 search-path entries, plain and dir/...) holding name.yang, name@YYYY-MM-DD.yang and near misses (name2.yang, name@2020-1-1.yang, name@2020-01-01.yang.bak, xname@..., name-x@..., a directory named like a candidate, the same name deeper in a ... tree, files of other modules), optional faults (unreadable directory, file listed then gone, read error); oracle: a reference chooser written from the documented rule decides which path Read must open (observed at the disk), or that Read must fail; under faults the opened file must be the prescribed one for the contents minus the faulted items or the call fails; never a file of a differently named module. " +
			"(split) a generated module whose top-level typedefs, identities, groupings, data nodes and augments are distributed over 1-4 submodules (every submodule includes the lower ones, the module includes all); oracle: the structural dump of the split module equals that of the unsplit module under every load order and map order. Non-trivial: >= 2 texts of one name / >= 2 candidate files / >= 1 submodule holding >= 1 item. Distinct = distinct case descriptions.",
		Assumptions: []string{
			"a pair of texts with one module name of which exactly one has no revision is left out of random runs (open finding C13-norev, replayed from known/): the bare name is both the key of the revision-less module and the alias of the latest revision",
			"for dir/... search-path entries the documented rule is per scanned directory and does not say which directory of the tree wins: the oracle demands only that the opened file is a candidate for the name, lies in the first search-path entry whose tree holds a candidate, and, if dated, that its own directory holds no name.yang and no later-dated candidate",
			"an import whose revision-date names a revision that is not loaded is left unchecked (the property speaks of 'when it is loaded')",
			"split: only the last module of the scenario is split, so no foreign module refers to a typedef that moved into a submodule (a typedef exported by a submodule is not visible to importers in goyang; C09 territory)",
		},
		Real:       []string{"Modules.add / FindModule / Process (include, import binding)", "findFile", "findInDir", "revisionDateSuffixRegex", "ToEntry include merging", "typedef / grouping / identity lookup through include lists"},
		Stub:       []string{"disk (simulated directory tree with faults)", "order of load calls (enumerated or seeded)", "Go map iteration order (seeded)"},
		FaultKinds: []string{fsim.DIRERR, fsim.VANISH, fsim.EIO},
	}
}

func (c13Driver) Generate(t *tape.Tape, tier string) core.Case {
	switch t.Weighted(3, 4, 2) {
	case 0:
		return genRevisions(t)
	case 1:
		return genFiles(t)
	}
	return genSplit(t, tier)
}

func (c13Driver) Decode(b []byte) (core.Case, error) {
	c := &c13Case{}
	if err := json.Unmarshal(b, c); err != nil {
		return nil, err
	}
	return c, nil
}

func (d c13Driver) Run(cc core.Case) core.Outcome {
	c := cc.(*c13Case)
	var o core.Outcome
	o.Key = tape.Hash64(core.MarshalCase(c))
	switch c.Mode {
	case "revisions":
		runRevisions(c, &o)
	case "files":
		runFiles(c, &o)
	case "split":
		runSplit(c, &o)
	default:
		o.Discard = "unknown-mode"
	}
	return o
}

// ---------------------------------------------------------------------------
// revisions

func randDate(t *tape.Tape) string {
	return fmt.Sprintf("20%02d-%02d-%02d", t.Range(10, 12), t.Range(1, 3), t.Range(1, 3)*9)
}

func latest(revs []string) string {
	r := ""
	for _, x := range revs {
		if x > r {
			r = x
		}
	}
	return r
}

func genRevisions(t *tape.Tape) *c13Case {
	c := &c13Case{Mode: "revisions"}
	nNames := t.Range(1, 3)
	id := 0
	for i := 0; i < nNames; i++ {
		name := fmt.Sprintf("m%d", i)
		nv := t.Weighted(0, 3, 4, 2)
		noRev := t.Chance(1, 3) && nv == 1 // a revision-less text only when it is the only text of its name (see assumptions)
		for v := 0; v < nv; v++ {
			rv := revVariant{ID: fmt.Sprintf("v%d", id), Name: name}
			id++
			if !noRev {
				for k := t.Range(1, 3); k > 0; k-- {
					rv.Revs = append(rv.Revs, randDate(t))
				}
			}
			c.Variants = append(c.Variants, rv)
		}
		for k := t.Range(0, 2); k > 0; k-- {
			imp := revImporter{Name: fmt.Sprintf("imp%d_%d", i, k), Target: name}
			if t.Chance(1, 2) {
				// date of some variant, or a date nobody has
				if t.Chance(4, 5) {
					vs := c.Variants[len(c.Variants)-nv:]
					if r := latest(vs[t.Intn(len(vs))].Revs); r != "" {
						imp.Rev = r
					}
				} else {
					imp.Rev = "1999-01-01"
				}
			}
			c.Importers = append(c.Importers, imp)
		}
	}
	// a submodule name with revisions, included by its owner module "own"
	if t.Chance(1, 2) {
		nv := t.Range(1, 3)
		for v := 0; v < nv; v++ {
			rv := revVariant{ID: fmt.Sprintf("v%d", id), Name: "sub", Sub: "own"}
			id++
			for k := t.Range(1, 2); k > 0; k-- {
				rv.Revs = append(rv.Revs, randDate(t))
			}
			c.Variants = append(c.Variants, rv)
		}
		inc := revImporter{Name: "own", Target: "sub", Include: true}
		if t.Chance(1, 2) {
			vs := c.Variants[len(c.Variants)-nv:]
			inc.Rev = latest(vs[t.Intn(len(vs))].Revs)
		}
		c.Importers = append(c.Importers, inc)
	}
	n := len(c.Variants)
	if t.Chance(1, 3) && n >= 2 {
		c.MidProcess = t.Range(1, n-1)
	}
	if n <= 5 {
		perm := make([]int, n)
		for i := range perm {
			perm[i] = i
		}
		var rec func(k int)
		rec = func(k int) {
			if k == n {
				c.Orders = append(c.Orders, append([]int(nil), perm...))
				return
			}
			for i := k; i < n; i++ {
				perm[k], perm[i] = perm[i], perm[k]
				rec(k + 1)
				perm[k], perm[i] = perm[i], perm[k]
			}
		}
		rec(0)
	} else {
		for i := 0; i < 6; i++ {
			c.Orders = append(c.Orders, t.Perm(n))
		}
	}
	if rt := t.Sub("reload"); rt.Chance(1, 3) && n >= 1 {
		// one text is offered a second time, under the same source name (the
		// same file read again): same name and revision, so it must be rejected
		for i, ord := range c.Orders {
			at := rt.Intn(len(ord))
			pos := at + 1 + rt.Intn(len(ord)-at)
			again := append([]int(nil), ord[:pos]...)
			again = append(again, ord[at])
			c.Orders[i] = append(again, ord[pos:]...)
		}
	}
	return c
}

func variantText(v revVariant) string {
	var sb strings.Builder
	if v.Sub != "" {
		fmt.Fprintf(&sb, "submodule %s {\n  belongs-to %s { prefix %s; }\n", v.Name, v.Sub, v.Sub)
	} else {
		fmt.Fprintf(&sb, "module %s {\n  namespace \"urn:%s\";\n  prefix %s;\n", v.Name, v.Name, v.Name)
	}
	for _, r := range v.Revs {
		fmt.Fprintf(&sb, "  revision %s;\n", r)
	}
	if v.Sub != "" {
		// a typedef that says which revision of the submodule it stands in
		fmt.Fprintf(&sb, "  typedef td_%s { type string; default \"%s\"; }\n", v.Name, v.ID)
	}
	fmt.Fprintf(&sb, "  leaf %s { type string; }\n}\n", v.ID)
	return sb.String()
}

// zuserText is a module that refers, through an import of the including
// module, to the typedef its submodule defines.
func zuserText(owner, sub string) string {
	return fmt.Sprintf("module zuser {\n  namespace \"urn:zuser\";\n  prefix zuser;\n  import %s { prefix o; }\n  leaf zz { type o:td_%s; }\n}\n", owner, sub)
}

func importerText(i revImporter) string {
	var sb strings.Builder
	fmt.Fprintf(&sb, "module %s {\n  namespace \"urn:%s\";\n  prefix %s;\n", i.Name, i.Name, i.Name)
	kw, body := "import", " prefix t;"
	if i.Include {
		kw, body = "include", ""
	}
	if i.Rev != "" {
		fmt.Fprintf(&sb, "  %s %s {%s revision-date %s; }\n", kw, i.Target, body, i.Rev)
	} else if i.Include {
		fmt.Fprintf(&sb, "  include %s;\n", i.Target)
	} else {
		fmt.Fprintf(&sb, "  import %s {%s }\n", i.Target, body)
	}
	fmt.Fprintf(&sb, "  leaf x_%s { type string; }\n}\n", i.Name)
	return sb.String()
}

func marker(m *yang.Module) string {
	if m == nil {
		return "<nil>"
	}
	for _, l := range m.Leaf {
		if strings.HasPrefix(l.Name, "v") {
			return l.Name
		}
	}
	return "<no marker>"
}

func runRevisions(c *c13Case, o *core.Outcome) {
	// input class of open finding C13-norev: one name with and without revisions
	withRev, withoutRev := map[string]bool{}, map[string]bool{}
	for _, v := range c.Variants {
		if len(v.Revs) > 0 {
			withRev[v.Name] = true
		} else {
			withoutRev[v.Name] = true
		}
	}
	for n := range withRev {
		if withoutRev[n] {
			defer func() {
				if o.Class != "" {
					o.Culprits = append(o.Culprits, "input:name-with-and-without-revision")
				}
			}()
			break
		}
	}
	texts := map[string]string{}
	for _, v := range c.Variants {
		texts[v.ID] = variantText(v)
	}
	for _, i := range c.Importers {
		texts[i.Name] = importerText(i)
	}
	zuser := false
	for _, i := range c.Importers {
		if i.Include {
			texts["zuser"] = zuserText(i.Name, i.Target)
			zuser = true
		}
	}
	byName := map[string]int{}
	for _, v := range c.Variants {
		byName[v.Name]++
	}
	for _, n := range byName {
		if n >= 2 {
			o.Nontrivial = true
		}
	}
	var firstObs string
	for oi, order := range c.Orders {
		spec := &world.Spec{Texts: texts, Sched: maporder.Canonical()}
		if c.MidProcess > 0 {
			for k := range c.Importers {
				spec.Ops = append(spec.Ops, world.Op{Op: "parse", Name: c.Importers[(k+oi)%len(c.Importers)].Name})
			}
		}
		nv := 0
		for _, vi := range order {
			if vi < len(c.Variants) {
				spec.Ops = append(spec.Ops, world.Op{Op: "parse", Name: c.Variants[vi].ID})
				nv++
				if nv == c.MidProcess {
					spec.Ops = append(spec.Ops, world.Op{Op: "process"})
				}
			}
		}
		if c.MidProcess <= 0 {
			for k := range c.Importers {
				spec.Ops = append(spec.Ops, world.Op{Op: "parse", Name: c.Importers[(k+oi)%len(c.Importers)].Name})
			}
		}
		if zuser {
			spec.Ops = append(spec.Ops, world.Op{Op: "parse", Name: "zuser"})
		}
		spec.Ops = append(spec.Ops, world.Op{Op: "process"})
		res := world.Exec(spec)
		// results of the variant loads, in load order
		var loadRes []world.OpResult
		for _, r := range res.Ops {
			if r.Op.Op == "parse" && strings.HasPrefix(r.Op.Name, "v") {
				loadRes = append(loadRes, r)
			}
		}
		if c.MidProcess > 0 {
			o.Count("probe.revisions_incremental_history", 1)
		}
		o.Ticks += res.Ticks
		if p := res.FirstPanic(); p != nil {
			o.Count("other_oracle.c01_would_fire", 1)
			o.Discard = "crash"
			return
		}
		// reference binder, fed with the same order
		type key struct{ name, rev string }
		accepted := map[key]string{} // -> variant id
		var acceptedList []revVariant
		k := 0
		for _, vi := range order {
			if vi >= len(c.Variants) {
				continue
			}
			v := c.Variants[vi]
			r := loadRes[k]
			k++
			kk := key{v.Name, latest(v.Revs)}
			_, dup := accepted[kk]
			if dup && r.Err == "" {
				o.Fail("duplicate-accepted", "order %v: loading %s (%s, latest revision %q) a second time was accepted", orderIDs(c, order), v.ID, v.Name, kk.rev)
				return
			}
			if !dup && r.Err != "" {
				o.Fail("distinct-rejected", "order %v: loading %s (%s, latest revision %q) was rejected although no text with that name and revision was loaded before: %s", orderIDs(c, order), v.ID, v.Name, kk.rev, r.Err)
				return
			}
			if dup {
				o.Count("probe.duplicate_rejected", 1)
				continue
			}
			accepted[kk] = v.ID
			acceptedList = append(acceptedList, v)
		}
		ms := res.MS
		var obs strings.Builder
		for name := range byName {
			best := ""
			bestID := ""
			isSub := false
			for _, v := range acceptedList {
				if v.Name != name {
					continue
				}
				isSub = v.Sub != ""
				if r := latest(v.Revs); bestID == "" || r > best {
					best, bestID = r, v.ID
				}
			}
			set := ms.Modules
			if isSub {
				set = ms.SubModules
			}
			if got := marker(set[name]); got != bestID {
				o.Fail("bare-name-binding", "order %v: the bare name %s denotes %s, the text with the latest revision (%s) is %s", orderIDs(c, order), name, got, best, bestID)
				return
			}
			for _, v := range acceptedList {
				if v.Name == name && len(v.Revs) > 0 {
					if got := marker(set[name+"@"+latest(v.Revs)]); got != v.ID {
						o.Fail("exact-revision-binding", "order %v: %s@%s denotes %s, loaded text is %s", orderIDs(c, order), name, latest(v.Revs), got, v.ID)
						return
					}
				}
			}
			// across orders only (name, revision) can be compared: of two texts with
			// the same name and latest revision the first one loaded stays
			fmt.Fprintf(&obs, "%s=%s@%s;", name, name, best)
			// imports / includes after Process
			for _, imp := range c.Importers {
				if imp.Target != name {
					continue
				}
				im := ms.Modules[imp.Name]
				if im == nil {
					continue
				}
				var bound *yang.Module
				if imp.Include {
					if len(im.Include) > 0 {
						bound = im.Include[0].Module
					}
				} else if len(im.Import) > 0 {
					bound = im.Import[0].Module
				}
				want := bestID
				if imp.Rev != "" {
					want = ""
					for _, v := range acceptedList {
						if v.Name == name && latest(v.Revs) == imp.Rev {
							want = v.ID
						}
					}
					if want == "" {
						o.Count("probe.import_of_unloaded_revision_unchecked", 1)
						continue
					}
				}
				if got := marker(bound); got != want {
					what := "import"
					if imp.Include {
						what = "include"
					}
					o.Fail("import-binding", "order %v: %s of %s (revision-date %q) in %s is bound to %s, prescribed is %s", orderIDs(c, order), what, name, imp.Rev, imp.Name, got, want)
					return
				}
				o.Count("probe.import_binding_checked", 1)
				if z := ms.Modules["zuser"]; imp.Include && z != nil && len(res.Ops[len(res.Ops)-1].Errs) == 0 {
					// the typedef of the included submodule, seen from a module that
					// imports the including one, is that of the bound revision
					if zz := yang.ToEntry(z).Dir["zz"]; zz != nil && zz.Type != nil {
						if zz.Type.Default != want {
							o.Fail("typedef-through-include", "order %v: %s includes %s (revision-date %q), bound to %s; a module importing %s sees the submodule's typedef of %s", orderIDs(c, order), imp.Name, name, imp.Rev, want, imp.Name, zz.Type.Default)
							return
						}
						o.Count("probe.typedef_through_pinned_include_checked", 1)
					}
				}
				fmt.Fprintf(&obs, "%s->%s@%s;", imp.Name, name, latestOf(acceptedIDs(acceptedList), want))
			}
		}
		// identical across orders (set semantics: sort the observations)
		parts := strings.Split(obs.String(), ";")
		sort.Strings(parts)
		ob := strings.Join(parts, ";")
		if oi == 0 {
			firstObs = ob
			o.State = tape.Hash64([]byte(ob))
		} else if ob != firstObs {
			o.Fail("load-order-dependence", "orders %v and %v bind differently: %s vs %s", orderIDs(c, c.Orders[0]), orderIDs(c, order), firstObs, ob)
			return
		}
		o.Sched = tape.MixN(o.Sched, tape.Hash64([]byte(fmt.Sprint(order))))
	}
	o.Count("probe.revision_orders_checked", int64(len(c.Orders)))
}

func acceptedIDs(list []revVariant) map[string]string {
	out := map[string]string{}
	for _, v := range list {
		out[v.ID] = latest(v.Revs)
	}
	return out
}

func latestOf(m map[string]string, id string) string { return m[id] }

func orderIDs(c *c13Case, order []int) []string {
	var out []string
	for _, i := range order {
		if i < len(c.Variants) {
			v := c.Variants[i]
			out = append(out, fmt.Sprintf("%s(%s@%s)", v.ID, v.Name, latest(v.Revs)))
		}
	}
	return out
}

// ---------------------------------------------------------------------------
// files

var dateSuffix = regexp.MustCompile(`^@\d{4}-\d{2}-\d{2}\.yang$`)

func genFiles(t *tape.Tape) *c13Case {
	c := &c13Case{Mode: "files", Want: "mod"}
	dirs := []string{".", "a", "b", "a/sub", "b/deep/er", "c"}
	ndirs := t.Range(1, 4)
	perm := t.Perm(len(dirs) - 1)
	for i := 0; i < ndirs; i++ {
		d := dirs[1+perm[i]]
		if t.Chance(1, 4) {
			d = strings.SplitN(d, "/", 2)[0] + "/..."
		}
		dup := false
		for _, p := range c.Path {
			if p == d {
				dup = true
			}
		}
		if !dup {
			c.Path = append(c.Path, d)
		}
	}
	// the wanted module is usually called mod; a name with a dot (legal in YANG)
	// makes near misses out of files whose name differs in that position only
	W := "mod"
	if wt := t.Sub("wanted-name"); wt.Chance(1, 4) {
		W = []string{"mo.d", "m.od", "mod.x"}[wt.Intn(3)]
		c.Want = W
	}
	nm := func(s string) string {
		if strings.HasPrefix(s, "Mod") {
			return "M" + W[1:] + s[3:]
		}
		return strings.Replace(s, "mod", W, 1)
	}
	cand := []string{"mod.yang", "mod@2020-01-01.yang", "mod@2021-06-15.yang", "mod@2019-12-31.yang", "mod@2021-06-05.yang"}
	near := []string{"mod2.yang", "mod@2020-1-1.yang", "mod@2020-01-01.yang.bak", "xmod@2022-01-01.yang", "mod-x@2022-01-01.yang", "mod@2022-13-01x.yang", "mod.yan", "mod@20220101.yang", "Mod.yang", "mod@2023-01-01.YANG", "other.yang"}
	nearMod := map[string]string{"mod2.yang": "mod2", "xmod@2022-01-01.yang": "xmod", "mod-x@2022-01-01.yang": "mod-x", "other.yang": "other", "Mod.yang": "Mod"}
	if W != "mod" {
		for i := range cand {
			cand[i] = nm(cand[i])
		}
		nn := map[string]string{}
		for i, f := range near {
			near[i] = nm(f)
			if m, ok := nearMod[f]; ok {
				nn[near[i]] = nm(m)
			}
		}
		nearMod = nn
		for _, r := range []string{"-", "x", ""} {
			o := strings.Replace(W, ".", r, 1)
			for _, f := range []string{o + "@2024-01-01.yang", o + ".yang"} {
				near = append(near, f, f) // (twice: drawn more often)
				nearMod[f] = o
			}
		}
	}
	have := map[string]bool{}
	for _, d := range dirs {
		if d == "." && !t.Chance(1, 3) {
			continue
		}
		for _, f := range cand {
			if t.Chance(1, 4) {
				p := path.Join(d, f)
				if !have[p] {
					have[p] = true
					c.Files = append(c.Files, fileSpec{Path: p, Module: W})
				}
			}
		}
		for _, f := range near {
			if t.Chance(1, 6) {
				p := path.Join(d, f)
				if !have[p] {
					have[p] = true
					c.Files = append(c.Files, fileSpec{Path: p, Module: nearMod[f]})
				}
			}
		}
		// a directory named exactly like the wanted file
		if t.Chance(1, 8) && !have[path.Join(d, W+".yang")] {
			p := path.Join(d, W+".yang", "inner2.yang")
			if !have[p] {
				have[p] = true
				have[path.Join(d, W+".yang")] = true // (no file of that name any more)
				c.Files = append(c.Files, fileSpec{Path: p, Module: "inner2"})
			}
		}
		// a directory named like a candidate
		if t.Chance(1, 10) {
			p := path.Join(d, W+"@2030-01-01.yang", "inner.yang")
			if !have[p] {
				have[p] = true
				c.Files = append(c.Files, fileSpec{Path: p, Module: "inner"})
			}
		}
	}
	if t.Chance(1, 3) {
		c.PriorRead = true
		if !have["other.yang"] {
			have["other.yang"] = true
			c.Files = append(c.Files, fileSpec{Path: "other.yang", Module: "other"})
		}
	}
	if t.Chance(1, 3) && len(c.Files) > 0 {
		// faults on files nobody opens test nothing: two thirds of them go to
		// candidates for the wanted module (and their directories)
		var cands []fileSpec
		for _, f := range c.Files {
			if b := path.Base(f.Path); b == c.Want+".yang" || strings.HasPrefix(b, c.Want+"@") {
				cands = append(cands, f)
			}
		}
		for k := t.Range(1, 2); k > 0; k-- {
			f := c.Files[t.Intn(len(c.Files))]
			if len(cands) > 0 && t.Chance(2, 3) {
				f = cands[t.Intn(len(cands))]
			}
			switch t.Intn(3) {
			case 0:
				c.Faults = append(c.Faults, fsim.Fault{Kind: fsim.DIRERR, Path: path.Dir(f.Path), Nth: 0})
			case 1:
				c.Faults = append(c.Faults, fsim.Fault{Kind: fsim.VANISH, Path: f.Path, Nth: 0})
			case 2:
				c.Faults = append(c.Faults, fsim.Fault{Kind: fsim.EIO, Path: f.Path, Nth: 0})
			}
		}
	}
	return c
}

func fileText(f fileSpec) string {
	if f.Module == "" {
		return "this is not yang\n"
	}
	id := regexp.MustCompile(`[^a-z0-9]`).ReplaceAllString(strings.ToLower(f.Path), "_")
	return fmt.Sprintf("module %s {\n  namespace \"urn:%s\";\n  prefix p;\n  leaf f_%s { type string; }\n}\n", f.Module, f.Module, id)
}

// refChoose is the reference chooser, written from the documented rule.  It
// returns the acceptable opened paths ("" = Read must fail) given which
// directories are unreadable and which files cannot be read.
type chooser struct {
	files  map[string]bool // regular files
	badDir map[string]bool
	badFil map[string]bool
}

func (ch *chooser) dirEntries(dir string) (files []string, subdirs []string, ok bool) {
	if ch.badDir[dir] {
		return nil, nil, false
	}
	prefix := dir + "/"
	if dir == "." {
		prefix = ""
	}
	fs := map[string]bool{}
	ds := map[string]bool{}
	exists := dir == "."
	for p := range ch.files {
		if !strings.HasPrefix(p, prefix) {
			continue
		}
		exists = true
		rest := p[len(prefix):]
		if i := strings.Index(rest, "/"); i >= 0 {
			ds[rest[:i]] = true
		} else {
			fs[rest] = true
		}
	}
	if !exists {
		return nil, nil, false
	}
	for f := range fs {
		files = append(files, f)
	}
	for d := range ds {
		subdirs = append(subdirs, d)
	}
	sort.Strings(files)
	sort.Strings(subdirs)
	return files, subdirs, true
}

// inDir applies the per-directory rule: exact name, else latest dated candidate.
func (ch *chooser) inDir(dir, mod string) string {
	files, _, ok := ch.dirEntries(dir)
	if !ok {
		return ""
	}
	best := ""
	for _, f := range files {
		if f == mod+".yang" {
			return path.Join(dir, f)
		}
		if strings.HasPrefix(f, mod) && dateSuffix.MatchString(f[len(mod):]) {
			if f > best {
				best = f
			}
		}
	}
	if best == "" {
		return ""
	}
	return path.Join(dir, best)
}

// treeCandidates lists every candidate below dir (recursively) that is the
// per-directory choice of its own directory.
func (ch *chooser) treeCandidates(dir, mod string, out *[]string) {
	if c := ch.inDir(dir, mod); c != "" {
		*out = append(*out, c)
	}
	_, subs, ok := ch.dirEntries(dir)
	if !ok {
		return
	}
	for _, s := range subs {
		ch.treeCandidates(path.Join(dir, s), mod, out)
	}
}

func runFiles(c *c13Case, o *core.Outcome) {
	if !fsim.SeamComplete() {
		o.Discard = "fs-seam-incomplete"
		return
	}
	disk := map[string]string{}
	owner := map[string]string{}
	ncand := 0
	for _, f := range c.Files {
		disk[f.Path] = fileText(f)
		owner[fsim.Clean(f.Path)] = f.Module
		base := path.Base(f.Path)
		if f.Module == c.Want && (base == c.Want+".yang" || (strings.HasPrefix(base, c.Want) && dateSuffix.MatchString(base[len(c.Want):]))) {
			ncand++
		}
	}
	if ncand >= 2 {
		o.Nontrivial = true
	}
	spec := &world.Spec{Disk: disk, Faults: c.Faults, Sticky: true, Path: c.Path, Sched: maporder.Canonical(), Ops: []world.Op{{Op: "read", Name: c.Want}}}
	prior := 0
	if c.PriorRead {
		// the faults must not hit the prior read: it only prepares the history
		hit := false
		for _, f := range c.Faults {
			if fsim.Clean(f.Path) == "other.yang" || fsim.Clean(f.Path) == "." {
				hit = true
			}
		}
		if !hit {
			spec.Ops = append([]world.Op{{Op: "read", Name: "other"}}, spec.Ops...)
			prior = 1
			o.Count("probe.files_after_prior_read", 1)
		}
	}
	res := world.Exec(spec)
	o.Ticks += res.Ticks
	if p := res.FirstPanic(); p != nil {
		o.Count("other_oracle.c01_would_fire", 1)
		o.Discard = "crash"
		return
	}
	for k, n := range res.Disk.Fired {
		o.Count("fault."+k, int64(n))
	}
	opened := ""
	if ops := res.Disk.Opened(); len(ops) > 0 {
		opened = ops[len(ops)-1]
	}
	readErr := res.Ops[prior].Err
	// never a file of a differently named module
	for oi, p := range res.Disk.Opened() {
		if prior == 1 && oi == 0 && p == "other.yang" {
			continue
		}
		base := path.Base(p)
		isCand := base == c.Want+".yang" || (strings.HasPrefix(base, c.Want) && dateSuffix.MatchString(base[len(c.Want):]))
		if !isCand {
			o.Fail("foreign-file-opened", "Read(%q) opened %s, which by its name is not a file of module %s (search path %v)", c.Want, p, c.Want, c.Path)
			return
		}
	}
	// reference chooser over the contents minus the faulted items
	ch := &chooser{files: map[string]bool{}, badDir: map[string]bool{}, badFil: map[string]bool{}}
	for p := range disk {
		ch.files[fsim.Clean(p)] = true
	}
	faulted := len(c.Faults) > 0
	for _, f := range c.Faults {
		if f.Kind == fsim.DIRERR {
			ch.badDir[fsim.Clean(f.Path)] = true
		} else {
			ch.badFil[fsim.Clean(f.Path)] = true
		}
	}
	var acceptable []string // any of these is fine; "" = must fail
	strict := true
	func() {
		// 1. the current directory, by the per-directory rule
		if p := ch.inDir(".", c.Want); p != "" && !ch.badFil[p] {
			acceptable = []string{p}
			return
		}
		// 2. the search path, in order
		for _, d := range c.Path {
			if path.Base(d) == "..." {
				root := path.Dir(d)
				var cands []string
				ch.treeCandidates(root, c.Want, &cands)
				var ok []string
				for _, p := range cands {
					if !ch.badFil[p] {
						ok = append(ok, p)
					}
				}
				if len(cands) > 0 {
					strict = false
				}
				if len(ok) > 0 {
					acceptable = ok
					if len(ok) < len(cands) {
						// a faulted candidate may have been met first: falling through to later entries is acceptable too
						acceptable = append(acceptable, "*later")
					}
					return
				}
				continue
			}
			if p := ch.inDir(d, c.Want); p != "" && !ch.badFil[p] {
				acceptable = []string{p}
				return
			}
		}
		acceptable = []string{""}
	}()
	okOutcome := false
	for _, a := range acceptable {
		switch {
		case a == "" && readErr != "":
			okOutcome = true
		case a == "*later":
			okOutcome = okOutcome || readErr != "" || opened != ""
		case a != "" && opened == a && readErr == "":
			okOutcome = true
		}
	}
	fired := 0
	for _, n := range res.Disk.Fired {
		fired += n
	}
	if fired > 0 && !okOutcome {
		// narrow relaxation once a fault has actually fired: the call may fail, or
		// open another file that by its name belongs to this module (checked above);
		// it must never return success without having loaded the module (checked below)
		okOutcome = true
		o.Count("probe.relaxed_under_fired_fault", 1)
	}
	if !okOutcome {
		got := opened
		if readErr != "" {
			got = "error: " + readErr
		}
		o.Fail("file-choice", "Read(%q) with search path %v over %v (faults %v): got %s, the documented rule prescribes %v (strict=%v)", c.Want, c.Path, fileList(c), c.Faults, got, acceptable, strict)
		return
	}
	if readErr == "" && marker2(res.MS, c.Want) == "" {
		o.Fail("file-choice", "Read(%q) returned nil but module %s is not loaded", c.Want, c.Want)
		return
	}
	o.State = tape.Hash64([]byte(opened + "|" + fmt.Sprint(readErr != "")))
	if faulted {
		o.Count("probe.files_with_faults", 1)
	} else {
		o.Count("probe.files_fault_free", 1)
	}
}

func marker2(ms *yang.Modules, name string) string {
	if m := ms.Modules[name]; m != nil {
		return m.Name
	}
	return ""
}

func fileList(c *c13Case) []string {
	var out []string
	for _, f := range c.Files {
		out = append(out, f.Path)
	}
	sort.Strings(out)
	return out
}

// ---------------------------------------------------------------------------
// split

func profSplit(t *tape.Tape) model.Profile {
	return model.Profile{
		Mods: [2]int{1, 2}, Subs: [2]int{0, 0}, Typedefs: [2]int{1, 4}, Identities: [2]int{0, 4}, Groupings: [2]int{1, 4},
		TopNodes: [2]int{2, 6}, Augments: [2]int{0, 3}, Deviations: [2]int{0, 0}, Depth: 3, Extras: t.Chance(1, 3),
		Posix: t.Sub("posix").Chance(1, 4),
	}
}

func init() { profiles["split"] = profSplit }

// splitLast distributes the top-level items of one module (usually the last) over k submodules.
func splitLast(s *model.Scenario, t *tape.Tape) (*model.Scenario, int) {
	n := s.Clone()
	var m *model.Mod
	var cands []*model.Mod
	for _, x := range n.Mods {
		if !x.IsSub() && x.Name != model.PosixModule {
			m = x
			cands = append(cands, x)
		}
	}
	if m == nil {
		return n, 0
	}
	// usually the last module; in a third of the cases another one, which later
	// modules import: its typedefs, groupings and identities are then referred
	// to across the import, through the importer's prefix
	if wt := t.Sub("which"); len(cands) > 1 && wt.Chance(1, 3) {
		m = cands[wt.Intn(len(cands)-1)]
	}
	k := t.Range(1, 4)
	subs := make([]*model.Mod, k)
	for i := range subs {
		subs[i] = &model.Mod{Name: fmt.Sprintf("%s-part%d", m.Name, i+1), BelongsTo: m.Name, Prefix: m.Prefix, YangVersion: m.YangVersion}
		for j := 0; j < i; j++ {
			subs[i].Includes = append(subs[i].Includes, &model.Include{Sub: subs[j].Name})
		}
	}
	if ct := t.Sub("mutual-includes"); k >= 2 && ct.Chance(1, 4) {
		// the parts include each other (accepted under the option
		// IgnoreSubmoduleCircularDependencies, which the executions then set):
		// every node must still arrive exactly once
		for i := range subs {
			for j := i + 1; j < k; j++ {
				if ct.Chance(2, 3) {
					subs[i].Includes = append(subs[i].Includes, &model.Include{Sub: subs[j].Name})
				}
			}
		}
	}
	// non-decreasing level sequence over definition order; level k = stays in the module
	level := 0
	next := func() int {
		if t.Chance(1, 3) && level < k {
			level++
		}
		return level
	}
	moved := 0
	var ids []*model.Identity
	for _, x := range m.Identities {
		if l := next(); l < k {
			subs[l].Identities = append(subs[l].Identities, x)
			moved++
		} else {
			ids = append(ids, x)
		}
	}
	m.Identities = ids
	var tds []*model.Typedef
	for _, x := range m.Typedefs {
		if l := next(); l < k {
			subs[l].Typedefs = append(subs[l].Typedefs, x)
			moved++
		} else {
			tds = append(tds, x)
		}
	}
	m.Typedefs = tds
	var grs []*model.Grouping
	for _, x := range m.Groupings {
		if l := next(); l < k {
			subs[l].Groupings = append(subs[l].Groupings, x)
			moved++
		} else {
			grs = append(grs, x)
		}
	}
	m.Groupings = grs
	var body []*model.Node
	for _, x := range m.Body {
		if l := next(); l < k {
			subs[l].Body = append(subs[l].Body, x)
			moved++
		} else {
			body = append(body, x)
		}
	}
	m.Body = body
	var augs []*model.Augment
	for _, x := range m.Augments {
		if l := next(); l < k {
			subs[l].Augments = append(subs[l].Augments, x)
			moved++
		} else {
			augs = append(augs, x)
		}
	}
	m.Augments = augs
	// The module includes all its submodules, or (half of the time) only the
	// top one, through which all others are reached by nested includes, plus
	// those holding a typedef that text remaining in the module refers to
	// (goyang looks typedefs up in directly included submodules only).
	// (Disabled: RFC 7950 5.1 requires a module to list ALL its submodules; on a
	// module that does not, goyang deliberately hoists neither the identities nor
	// the typedefs of a submodule reached only through another submodule, so the
	// reduced include set is outside the property's domain.)
	direct := map[string]bool{}
	if false {
		direct[subs[k-1].Name] = true
		holder := map[string]string{}
		for _, sub := range subs {
			for _, td := range sub.Typedefs {
				holder[td.Name] = sub.Name
			}
		}
		var doType func(ty *model.Type)
		doType = func(ty *model.Type) {
			if ty == nil {
				return
			}
			if h, ok := holder[ty.Ref.Name]; ok && ty.Ref.Mod == m.Name {
				direct[h] = true
			}
			for _, u := range ty.Union {
				doType(u)
			}
		}
		var doBody func(body []*model.Node)
		var doGrouping func(g *model.Grouping)
		doBody = func(body []*model.Node) {
			for _, x := range body {
				doType(x.Type)
				for _, td := range x.Typedefs {
					doType(td.Type)
				}
				for _, g := range x.Groupings {
					doGrouping(g)
				}
				doBody(x.Kids)
			}
		}
		doGrouping = func(g *model.Grouping) {
			for _, td := range g.Typedefs {
				doType(td.Type)
			}
			for _, x := range g.Groupings {
				doGrouping(x)
			}
			doBody(g.Body)
		}
		for _, td := range m.Typedefs {
			doType(td.Type)
		}
		for _, g := range m.Groupings {
			doGrouping(g)
		}
		doBody(m.Body)
		for _, a := range m.Augments {
			doBody(a.Body)
		}
	} else {
		for _, sub := range subs {
			direct[sub.Name] = true
		}
	}
	for _, sub := range subs {
		if direct[sub.Name] {
			m.Includes = append(m.Includes, &model.Include{Sub: sub.Name})
		}
		n.Mods = append(n.Mods, sub)
	}
	return n, moved
}

func genSplit(t *tape.Tape, tier string) *c13Case {
	c := &c13Case{Mode: "split"}
	g := model.Generate(t.Sub("scenario"), profSplit(t.Sub("profile")))
	c.Scenario = g.S
	c.Split, _ = splitLast(g.S, t.Sub("split"))
	if tt := t.Sub("tworev"); tt.Chance(1, 25) {
		// the module is loaded in two revisions, split alike (the input class
		// of open finding C13-tworev-sub)
		for _, sc := range []*model.Scenario{c.Scenario, c.Split} {
			var m *model.Mod
			for _, x := range sc.Mods {
				if !x.IsSub() && x.Name != model.PosixModule {
					m = x
				}
			}
			if m == nil || len(m.Revs) > 0 {
				break
			}
			m.Revs = []string{newerRev}
			b, _ := json.Marshal(m)
			older := &model.Mod{}
			json.Unmarshal(b, older)
			older.Revs = []string{olderRev}
			older.Augments = nil
			sc.Mods = append(sc.Mods, older)
		}
	}
	names := sortedNames(model.RenderAll(c.Split))
	st := t.Sub("schedules")
	k := 3
	if tier == "thorough" {
		k = 6
	}
	for i := 0; i < k; i++ {
		r := c05Run{Order: permuted(st, names), Sched: maporder.Random(st)}
		if i == 0 {
			r.Sched = maporder.Canonical()
		}
		c.Runs = append(c.Runs, r)
	}
	return c
}

func structural(ms *yang.Modules, s *model.Scenario) string {
	var sb strings.Builder
	for _, m := range s.Mods {
		if m.IsSub() {
			continue
		}
		mod := ms.Modules[m.FullName()]
		if mod == nil {
			fmt.Fprintf(&sb, "== %s: missing\n", m.FullName())
			continue
		}
		e := yang.ToEntry(mod)
		fmt.Fprintf(&sb, "== %s\n", m.FullName())
		var ids []string
		for _, id := range e.Identities {
			var vs []string
			for _, v := range id.Values {
				vs = append(vs, dump.OwnerName(v)+":"+v.Name)
			}
			ids = append(ids, fmt.Sprintf("identity %s values=%v", id.Name, vs))
		}
		// identities hoisted from submodules are listed by the submodule entries: collect through the owner name
		// (the identities reported under a name are those of its latest revision:
		// an older revision's section lists the tree only)
		if ms.Modules[m.Name] != mod {
			ids = nil
		}
		for _, sm := range dump.DistinctModules(ms.SubModules) {
			if ms.Modules[m.Name] != mod {
				break
			}
			if sm.BelongsTo != nil && sm.BelongsTo.Name == m.Name {
				for _, id := range yang.ToEntry(sm).Identities {
					var vs []string
					for _, v := range id.Values {
						vs = append(vs, dump.OwnerName(v)+":"+v.Name)
					}
					ids = append(ids, fmt.Sprintf("identity %s values=%v", id.Name, vs))
				}
			}
		}
		sort.Strings(ids)
		sb.WriteString(strings.Join(ids, "\n") + "\n")
		sb.WriteString(strings.Join(model.Canon(dump.ToX(e, nil), model.CanonOpts{}), "\n") + "\n")
	}
	return sb.String()
}

func runSplit(c *c13Case, o *core.Outcome) {
	if c.Scenario == nil || c.Split == nil {
		o.Discard = "no-scenario"
		return
	}
	for _, sc := range []*model.Scenario{c.Scenario, c.Split} {
		if noRevPair(sc) {
			// the input class of open finding C13-norev (revisions mode)
			o.Discard = "name-with-and-without-revision"
			return
		}
		seen := map[string]bool{}
		for _, m := range sc.Mods {
			if seen[m.FullName()] {
				// (only shrinking produces this)
				o.Discard = "same-module-twice"
				return
			}
			seen[m.FullName()] = true
		}
	}
	ta := model.RenderAll(c.Scenario)
	a := runBatch(ta, sortedNames(ta), maporder.Canonical(), world.Options{})
	o.Ticks += a.Res.Ticks
	if a.Crashed {
		o.Count("other_oracle.c01_would_fire", 1)
		o.Discard = "crash"
		return
	}
	if !a.Clean {
		o.Discard = "unsplit-module-not-clean"
		return
	}
	want := structural(a.Res.MS, c.Scenario)
	o.State = tape.Hash64([]byte(want))
	tb := model.RenderAll(c.Split)
	names := sortedNames(tb)
	moved := 0
	for _, m := range c.Split.Mods {
		if m.IsSub() {
			moved += len(m.Typedefs) + len(m.Identities) + len(m.Groupings) + len(m.Body) + len(m.Augments)
		}
	}
	if moved > 0 {
		o.Nontrivial = true
		o.Count("probe.items_moved_into_submodules", int64(moved))
	}
	var splitOpts world.Options
	if c.Split != nil && c.Split.HasIncludeCycle() {
		splitOpts.IgnoreCircDeps = true
		o.Count("probe.split_with_mutual_includes", 1)
	}
	execs := append([]c05Run{{Order: names, Sched: maporder.Canonical()}}, c.Runs...)
	for i, r := range execs {
		var b *batchOutcome
		if i%2 == 1 {
			// re-Process: the submodule merge is driven by per-run memo tables
			spec := &world.Spec{Texts: tb, Sched: r.Sched, Options: splitOpts}
			for _, n := range fixOrder(r.Order, names) {
				spec.Ops = append(spec.Ops, world.Op{Op: "parse", Name: n})
			}
			spec.Ops = append(spec.Ops, world.Op{Op: "process"}, world.Op{Op: "process"})
			res := world.Exec(spec)
			b = outcomeOf(&world.Result{Ops: res.Ops[len(res.Ops)-1:], MS: res.MS, Rec: res.Rec, Ticks: res.Ticks})
			b.Res = res
			if p := res.FirstPanic(); p != nil {
				b.Crashed, b.Frame = true, p.Frame
			}
			o.Count("probe.split_reprocessed", 1)
		} else {
			b = runBatch(tb, fixOrder(r.Order, names), r.Sched, splitOpts)
		}
		o.Ticks += b.Res.Ticks
		if i > 0 {
			addRecorder(o, b.Res.Rec)
		}
		if b.Crashed {
			o.Fail("split-crashes", "execution %d: processing the split module crashed in %s although the unsplit module processes cleanly", i-1, b.Frame)
			return
		}
		if !b.Clean {
			o.Fail("split-reports-errors", "execution %d (order %v, sites %v): the module split into submodules reports errors although the unsplit module is clean:\n  %s", i-1, r.Order, culpritSites(r.Sched), strings.Join(b.Errs, "\n  "))
			o.Culprits = culpritSites(r.Sched)
			return
		}
		if got := structural(b.Res.MS, c.Scenario); got != want {
			o.Fail("split-differs", "execution %d (order %v, sites %v): the module split into submodules differs from the unsplit module:\n%s", i-1, r.Order, culpritSites(r.Sched), strings.Replace(strings.Replace(firstDiff(want, got), "canonical:", "unsplit :", 1), "this run :", "split   :", 1))
			o.Culprits = culpritSites(r.Sched)
			if twoRevsOneSub(tb) {
				o.Culprits = append(o.Culprits, inputTwoRevsOneSub)
			}
			return
		}
	}
	o.Count("probe.split_equal_to_unsplit", 1)
}

// ---------------------------------------------------------------------------

func (c13Driver) Shrink(cc core.Case) []core.Case {
	c := cc.(*c13Case)
	var out []core.Case
	clone := func() *c13Case {
		b, _ := json.Marshal(c)
		n := &c13Case{}
		json.Unmarshal(b, n)
		return n
	}
	switch c.Mode {
	case "revisions":
		if len(c.Orders) > 1 {
			for i := range c.Orders {
				n := clone()
				n.Orders = [][]int{n.Orders[i]}
				out = append(out, n)
			}
			for i := range c.Orders {
				for j := i + 1; j < len(c.Orders); j++ {
					if len(c.Orders) > 2 {
						n := clone()
						n.Orders = [][]int{n.Orders[i], n.Orders[j]}
						out = append(out, n)
					}
				}
				if i > 3 {
					break
				}
			}
		}
		for i := range c.Importers {
			n := clone()
			n.Importers = append(n.Importers[:i], n.Importers[i+1:]...)
			out = append(out, n)
		}
		for i := range c.Variants {
			n := clone()
			n.Variants = append(n.Variants[:i], n.Variants[i+1:]...)
			for k, ord := range n.Orders {
				var no []int
				for _, x := range ord {
					if x == i {
						continue
					}
					if x > i {
						x--
					}
					no = append(no, x)
				}
				n.Orders[k] = no
			}
			out = append(out, n)
		}
		for i, v := range c.Variants {
			if len(v.Revs) > 1 {
				n := clone()
				n.Variants[i].Revs = []string{latest(v.Revs)}
				out = append(out, n)
			}
		}
	case "files":
		for i := range c.Faults {
			n := clone()
			n.Faults = append(n.Faults[:i], n.Faults[i+1:]...)
			out = append(out, n)
		}
		for i := range c.Files {
			n := clone()
			n.Files = append(n.Files[:i], n.Files[i+1:]...)
			out = append(out, n)
		}
		for i := range c.Path {
			if len(c.Path) > 1 {
				n := clone()
				n.Path = append(n.Path[:i], n.Path[i+1:]...)
				out = append(out, n)
			}
		}
	case "split":
		if len(c.Runs) > 1 {
			for i := range c.Runs {
				n := clone()
				n.Runs = []c05Run{n.Runs[i]}
				out = append(out, n)
			}
		}
		if len(c.Runs) == 1 {
			n := clone()
			n.Runs = nil
			out = append(out, n)
			for _, s := range schedShrinks(c.Runs[0].Sched) {
				n := clone()
				n.Runs[0].Sched = s
				out = append(out, n)
			}
		}
		// drop the same item from both scenarios: shrink the unsplit one and re-split is not
		// reproducible, so shrink both structurally and keep pairs that still fail
		for _, s := range model.ShrinkScenario(c.Split) {
			// every part submodule must still be included by its module
			ok := true
			for _, m := range s.Mods {
				if m.IsSub() && strings.Contains(m.Name, "-part") {
					// (every loaded revision of the module)
					owners := 0
					for _, owner := range s.Mods {
						if owner.IsSub() || owner.Name != m.BelongsTo {
							continue
						}
						owners++
						found := false
						for _, inc := range owner.Includes {
							if inc.Sub == m.Name {
								found = true
							}
						}
						if !found {
							ok = false
						}
					}
					if owners == 0 {
						ok = false
					}
				}
			}
			if !ok {
				continue
			}
			n := clone()
			n.Split = s
			n.Scenario = unsplit(s)
			out = append(out, n)
		}
	}
	return out
}

// unsplit folds the submodules named <mod>-partN back into their module.
func unsplit(s *model.Scenario) *model.Scenario {
	n := s.Clone()
	var keep []*model.Mod
	for _, m := range n.Mods {
		if m.IsSub() && strings.Contains(m.Name, "-part") {
			continue
		}
		keep = append(keep, m)
	}
	for _, m := range keep {
		var inc []*model.Include
		for _, i := range m.Includes {
			if strings.HasPrefix(i.Sub, m.Name+"-part") {
				continue
			}
			inc = append(inc, i)
		}
		m.Includes = inc
		// submodule items first (they were defined first), in part order
		var parts []*model.Mod
		for _, x := range n.Mods {
			if x.IsSub() && x.BelongsTo == m.Name && strings.HasPrefix(x.Name, m.Name+"-part") {
				parts = append(parts, x)
			}
		}
		sort.Slice(parts, func(i, j int) bool { return parts[i].Name < parts[j].Name })
		var ids []*model.Identity
		var tds []*model.Typedef
		var grs []*model.Grouping
		var body []*model.Node
		var augs []*model.Augment
		for _, p := range parts {
			ids = append(ids, p.Identities...)
			tds = append(tds, p.Typedefs...)
			grs = append(grs, p.Groupings...)
			body = append(body, p.Body...)
			augs = append(augs, p.Augments...)
		}
		m.Identities = append(ids, m.Identities...)
		m.Typedefs = append(tds, m.Typedefs...)
		m.Groupings = append(grs, m.Groupings...)
		m.Body = append(body, m.Body...)
		// of several revisions only the latest one augments (see genSplit)
		latest := true
		for _, x := range keep {
			if x != m && x.Name == m.Name && x.LatestRev() > m.LatestRev() {
				latest = false
			}
		}
		if latest {
			m.Augments = append(augs, m.Augments...)
		}
	}
	n.Mods = keep
	return n
}

func (c13Driver) Describe(cc core.Case) string {
	c := cc.(*c13Case)
	var sb strings.Builder
	switch c.Mode {
	case "revisions":
		for _, v := range c.Variants {
			fmt.Fprintf(&sb, "---- %s\n%s", v.ID, variantText(v))
		}
		for _, i := range c.Importers {
			fmt.Fprintf(&sb, "---- %s\n%s", i.Name, importerText(i))
		}
		fmt.Fprintf(&sb, "orders: %d\n", len(c.Orders))
	case "files":
		fmt.Fprintf(&sb, "files: %v\npath: %v\nfaults: %+v\n", fileList(c), c.Path, c.Faults)
	case "split":
		t := model.RenderAll(c.Split)
		for _, n := range sortedNames(t) {
			fmt.Fprintf(&sb, "---- %s\n%s\n", n, t[n])
		}
	}
	return sb.String()
}
