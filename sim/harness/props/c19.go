package props

import (
	"bytes"
	"encoding/json"
	"fmt"
	"sort"
	"strings"

	"github.com/openconfig/goyang/pkg/yang"
	"github.com/openconfig/goyang/pkg/zzsim"
	"github.com/openconfig/goyang/zzverif/core"
	"github.com/openconfig/goyang/zzverif/dump"
	"github.com/openconfig/goyang/zzverif/fsim"
	"github.com/openconfig/goyang/zzverif/maporder"
	"github.com/openconfig/goyang/zzverif/model"
	"github.com/openconfig/goyang/zzverif/sched"
	"github.com/openconfig/goyang/zzverif/tape"
)

// C19 — independent module sets and concurrent readers do not interfere.
//
// Simulated: which caller goroutine proceeds at every lock acquisition /
// release and (with seeded probability) at every function entry and loop head
// of the instrumented library.  Oracles: the Go race detector (the harness is
// built with -race; a report ends the process with exit status 66 and is
// attributed to the run by the RUN protocol, then confirmed in a fresh
// process) and equality of every result with the sequential one.

type readOp struct {
	Op   string `json:"op"`             // toentry find ns inst byns ro defaults errors path print kind
	Mod  string `json:"mod"`            // module name
	Path string `json:"path,omitempty"` // node path below the module (names joined by /; input/output for rpc parts)
	Arg  string `json:"arg,omitempty"`  // find: the path expression; byns: the namespace
}

type c19Case struct {
	Kind       string            `json:"kind"` // k1 | k2
	Scenarios  []*model.Scenario `json:"scenarios"`
	Ops        [][]readOp        `json:"ops,omitempty"` // k2: per task
	SchedSeed  uint64            `json:"sched_seed"`
	TickSwitch int               `json:"tick_switch"`
	PrintMix   bool              `json:"print_mix,omitempty"`
	// Splice (k1): per scenario, statements spliced into its first text before
	// loading (lexical errors, rejected statements): error paths of the lexer,
	// parser and AST builder run in parallel too.
	Splice []string `json:"splice,omitempty"`
	// Readers (k2e): number of reader tasks.
	Readers int `json:"readers,omitempty"`
	// Disk (k1): the texts of task i lie under t<i>/ of a shared read-only
	// simulated disk; the task puts that directory on its search path, reads the
	// modules listed in Roots[i] by name and lets Process fetch what they import
	// or include: findFile / findInDir / AddPath run in parallel too.
	Disk  bool       `json:"disk,omitempty"`
	Roots [][]string `json:"roots,omitempty"`
}

type c19Driver struct{}

func init() { core.Register(c19Driver{}) }

func (c19Driver) ID() string { return "C19" }

func (c19Driver) Tier(t string) core.Tier {
	if t == "thorough" {
		return core.Tier{Runs: 250_000, AnnounceEvery: 1}
	}
	return core.Tier{Runs: 8_000, AnnounceEvery: 1}
}

func (c19Driver) Info() core.Info {
	return core.Info{
		Race: true,
		Rule: "A case is a schedule (one integer + tick-switch probability 0, 1/200 or 1/20) and either (K1) 2-4 tasks that each create a Modules, load their own generated module set, Process and dump it (a quarter of them from a shared read-only simulated disk: own directory on the search path, Read by module name, imports and includes fetched by Process), or (K2e, 1 run in 13) a set whose Process reported errors, its module entries and their children fetched beforehand and read by 2-5 tasks through Path, GetErrors, ReadOnly, Kind, or (K2) one processed set read by 2-6 tasks issuing 5-40 seeded operations each (ToEntry of cached nodes, Find of absolute and relative paths of existing nodes, Namespace, InstantiatingModule, FindModuleByNamespace incl. first-time lookups of one namespace by several tasks, ReadOnly, DefaultValues, SingleDefaultValue, GetErrors, Path, IsDir/IsLeaf..., and in a separate mix Print into a private buffer). " +
			"Every lock acquisition and release offers a switch; a task may be descheduled while holding a lock (a blocked task yields instead of parking). Non-trivial: the schedule switched tasks at least once. Distinct schedules are counted by the hash of the pick trace.",
		Assumptions: []string{
			"tasks are real goroutines; which one logically proceeds is decided only by the seeded turn variable (//go:norace code + runtime.Gosched under GOMAXPROCS=1), so the scheduler adds no happens-before edge and the race detector sees exactly the library's own synchronisation",
			"in a -race build sync.Pool keeps a random 3 of 4 objects and annotates their hand-over as release/acquire, so fmt's buffer pool orders almost any two goroutines that format a string and hides races at random (measured: a race on a process-wide memo was reported in 1 of 12 identical executions); the -race harness is therefore built with an overlay of sync/pool.go in which Put drops every object, which Pool's contract allows (12 of 12 with it). Other synchronisation inside the standard library (reflect caches) can still hide a race in one run, never invent one; a race is accepted only if it reproduces in a fresh process",
			"process-wide state is cold when the concurrent phase starts: worker processes of this driver are replaced every 20 runs and the sequential expectation is computed after the concurrent phase, not before it",
			"paths through undeclared rpc input/output are excluded from Find (they create nodes, which is not a read)",
			"the race detector keeps a bounded access history: a race can be missed in one schedule, never invented",
			"map iteration order is pinned to sorted by a stateless hook so that the yield sequence is a function of the schedule",
		},
		Real: []string{"the whole library built with -race: lexer, parser, AST builder, Process, Entry read API, the four mutexes", "Go race detector"},
		Stub: []string{"choice of which caller goroutine proceeds (seeded turn-based scheduler at lock points and ticks)", "lock blocking (TryLock + yield instead of parking)", "Go map iteration order (pinned to sorted)", "sync.Pool in the -race build (overlay: every Put drops its object)", "disk (stateless: empty, or for K1-from-disk a read-only in-memory tree shared by the tasks; findFile / findInDir themselves are real)"},
	}
}

func profC19(t *tape.Tape) model.Profile {
	p := model.Profile{
		Mods: [2]int{1, 3}, Subs: [2]int{0, 1}, Typedefs: [2]int{0, 2}, Identities: [2]int{0, 2}, Groupings: [2]int{0, 2},
		TopNodes: [2]int{1, 3}, Augments: [2]int{0, 2}, Deviations: [2]int{0, 1}, DevMods: [2]int{1, 1}, Depth: 2,
		Posix: t.Sub("posix").Chance(1, 2),
	}
	return p
}

func (c19Driver) Generate(t *tape.Tape, tier string) core.Case {
	c := &c19Case{SchedSeed: t.Uint64(), TickSwitch: []int{0, 200, 20, 0}[t.Intn(4)]}
	if t.Chance(2, 5) {
		c.Kind = "k1"
		n := t.Range(2, 4)
		for i := 0; i < n; i++ {
			g := model.Generate(t.Sub(fmt.Sprintf("scenario%d", i)), profC19(t.Sub("profile")))
			c.Scenarios = append(c.Scenarios, g.S)
		}
		if dt := t.Sub("disk"); dt.Chance(1, 4) {
			c.Disk = true
			for _, sc := range c.Scenarios {
				var roots []string
				for _, m := range sc.Mods {
					if dt.Chance(1, 2) {
						roots = append(roots, m.Name)
					}
				}
				if len(roots) == 0 {
					roots = []string{sc.Mods[dt.Intn(len(sc.Mods))].Name}
				}
				c.Roots = append(c.Roots, roots)
			}
			return c
		}
		if st := t.Sub("splice"); st.Chance(1, 4) {
			lexical := []string{c18Raws[6], c18Raws[7], c18Raws[8], "  leaf zq { type string; description 'unterminated; }\n", "  /* unterminated comment\n"}
			for range c.Scenarios {
				switch st.Intn(3) {
				case 0:
					c.Splice = append(c.Splice, lexical[st.Intn(len(lexical))])
				case 1:
					c.Splice = append(c.Splice, c18Raws[st.Intn(len(c18Raws))])
				default:
					c.Splice = append(c.Splice, genSoup(st))
				}
			}
		}
		return c
	}
	if t.Chance(1, 8) {
		// (K2e) readers of a set whose Process reported errors: the error
		// accessors are among the reads the property lists
		c.Kind = "k2e"
		p := profC19(t.Sub("profile"))
		p.Invalid, p.InvalidPct, p.MaxInvalid = allInvalid, 30, 3
		g := model.Generate(t.Sub("scenario"), p)
		c.Scenarios = []*model.Scenario{g.S}
		c.Splice = []string{genSoup(t.Sub("splice"))}
		c.Readers = t.Range(2, 5)
		return c
	}
	c.Kind = "k2"
	g := model.Generate(t.Sub("scenario"), profC19(t.Sub("profile")))
	c.Scenarios = []*model.Scenario{g.S}
	c.PrintMix = t.Chance(1, 5)
	// enumerate the nodes of the reference trees for operation targets
	cp := model.Compile(g.S)
	type tgt struct{ mod, path, abs string }
	var tgts []tgt
	var nss []string
	for _, m := range g.S.Mods {
		if m.IsSub() {
			continue
		}
		nss = append(nss, m.NS)
		root := cp.Trees[m.Name]
		if root == nil {
			continue
		}
		tgts = append(tgts, tgt{m.Name, "", ""})
		var rec func(x *model.XNode, p string, abs string, ns string)
		rec = func(x *model.XNode, p, abs, ns string) {
			names := make([]string, 0, len(x.Kids))
			for k := range x.Kids {
				names = append(names, k)
			}
			sort.Strings(names)
			for _, k := range names {
				ch := x.Kids[k]
				cns := ns
				if ch.NSMod != "" {
					cns = ch.NSMod
				}
				np := strings.TrimPrefix(p+"/"+k, "/")
				na := abs + "/" + g.S.Mod(m.Name).Prefix + ":" + k
				tgts = append(tgts, tgt{m.Name, np, na})
				rec(ch, np, na, cns)
			}
			for _, io := range []*model.XNode{x.Input, x.Output} {
				if io != nil {
					np := strings.TrimPrefix(p+"/"+io.Name, "/")
					na := abs + "/" + g.S.Mod(m.Name).Prefix + ":" + io.Name
					tgts = append(tgts, tgt{m.Name, np, na})
					rec(io, np, na, ns)
				}
			}
		}
		rec(root, "", "", m.Name)
	}
	nt := t.Range(2, 6)
	ot := t.Sub("ops")
	kinds := []string{"toentry", "find", "findrel", "ns", "inst", "byns", "ro", "defaults", "errors", "path", "kind"}
	w := []int{2, 4, 2, 3, 5, 4, 2, 2, 1, 2, 1}
	if c.PrintMix {
		kinds = append(kinds, "print")
		w = append(w, 4)
	}
	for i := 0; i < nt; i++ {
		var ops []readOp
		for k := ot.Range(5, 40); k > 0; k-- {
			tg := tgts[ot.Intn(len(tgts))]
			op := readOp{Op: kinds[ot.Weighted(w...)], Mod: tg.mod, Path: tg.path}
			switch op.Op {
			case "find":
				op.Arg = tg.abs
				if op.Arg == "" {
					op.Op = "ns"
				}
			case "findrel":
				if tg.path == "" {
					op.Op = "ns"
				} else {
					op.Arg = "../" + tg.path[strings.LastIndex(tg.path, "/")+1:]
				}
			case "byns":
				op.Arg = nss[ot.Intn(len(nss))]
				if ot.Chance(1, 8) {
					op.Arg = "urn:nosuch"
				}
			}
			ops = append(ops, op)
		}
		// make several tasks look the same namespace up first
		if ot.Chance(1, 2) {
			ops = append([]readOp{{Op: "byns", Mod: tgts[0].mod, Arg: nss[0]}}, ops...)
		}
		c.Ops = append(c.Ops, ops)
	}
	return c
}

func (c19Driver) Decode(b []byte) (core.Case, error) {
	c := &c19Case{}
	if err := json.Unmarshal(b, c); err != nil {
		return nil, err
	}
	if len(c.Scenarios) == 0 {
		return nil, fmt.Errorf("C19 case without scenario")
	}
	return c, nil
}

// loadAndProcess builds a processed Modules from a scenario (Parse only).
func loadAndProcess(s *model.Scenario) (*yang.Modules, []error) {
	return loadAndProcessSpliced(s, "")
}

// loadAndProcessSpliced is loadAndProcess with statements spliced into the
// first text; a text that is rejected does not end the pipeline (its error is
// kept, the other texts are loaded and processed).
func loadAndProcessSpliced(s *model.Scenario, splice string) (*yang.Modules, []error) {
	texts := model.RenderAll(s)
	names := sortedNames(texts)
	if splice != "" && len(names) > 0 {
		if d, ok := derive(texts, badSpec{From: names[0], Kind: "raw", Raw: splice}); ok {
			texts[names[0]] = d
		}
	}
	ms := yang.NewModules()
	var errs []error
	for _, n := range names {
		if err := ms.Parse(texts[n], n); err != nil {
			if splice == "" {
				return ms, []error{err}
			}
			errs = append(errs, err)
		}
	}
	return ms, append(errs, ms.Process()...)
}

// readAndProcess is the disk-backed pipeline of task i: search path, Read by
// module name, Process (which fetches imports and includes on demand).
func readAndProcess(c *c19Case, i int) (*yang.Modules, []error) {
	ms := yang.NewModules()
	ms.AddPath("t" + itoa(i))
	var errs []error
	if i < len(c.Roots) {
		for _, r := range c.Roots[i] {
			if err := ms.Read(r); err != nil {
				errs = append(errs, err)
			}
		}
	}
	return ms, append(errs, ms.Process()...)
}

func itoa(i int) string {
	if i < 10 {
		return string(rune('0' + i))
	}
	return itoa(i/10) + string(rune('0'+i%10))
}

func spliceOf(c *c19Case, i int) string {
	if i < len(c.Splice) {
		return c.Splice[i]
	}
	return ""
}

func fullOutcome(ms *yang.Modules, errs []error) string {
	if len(errs) > 0 {
		return dump.Errors(errs)
	}
	return dump.Full(ms, true)
}

func nodeAt(ms *yang.Modules, mod, p string) *yang.Entry {
	m := ms.Modules[mod]
	if m == nil {
		return nil
	}
	e := yang.ToEntry(m)
	if p == "" {
		return e
	}
	for _, part := range strings.Split(p, "/") {
		if e == nil {
			return nil
		}
		if e.RPC != nil && part == "input" {
			e = e.RPC.Input
			continue
		}
		if e.RPC != nil && part == "output" {
			e = e.RPC.Output
			continue
		}
		e = e.Dir[part]
	}
	return e
}

// doRead performs one read operation and renders its result without fmt
// (fmt's sync.Pool would add happens-before noise between tasks).
func doRead(ms *yang.Modules, op readOp) string {
	e := nodeAt(ms, op.Mod, op.Path)
	if e == nil {
		return "no-such-node"
	}
	switch op.Op {
	case "toentry":
		// entry lookup from the cache: the module, and the AST node behind this
		// entry when it is one that Process converted (and hence cached) itself;
		// leaf-lists and implicit cases are built from synthetic nodes that are
		// never cached, so looking those up would convert them: not a read
		r := "entry:" + yang.ToEntry(ms.Modules[op.Mod]).Name
		if e.Node != nil {
			switch e.Node.(type) {
			case *yang.Container, *yang.List, *yang.Choice, *yang.Notification, *yang.RPC, *yang.Action, *yang.Input, *yang.Output, *yang.AnyData, *yang.AnyXML:
				if c := yang.ToEntry(e.Node); c != nil {
					r += "/" + c.Name
				}
			case *yang.Case:
				if st := e.Node.Statement(); st != nil && st.Keyword == "case" {
					if c := yang.ToEntry(e.Node); c != nil {
						r += "/" + c.Name
					}
				}
			}
		}
		return r
	case "find", "findrel":
		f := e.Find(op.Arg)
		if f == nil {
			return "find:nil"
		}
		return "find:" + f.Path()
	case "ns":
		return "ns:" + e.Namespace().Name
	case "inst":
		m, err := e.InstantiatingModule()
		if err != nil {
			return "inst-error"
		}
		return "inst:" + m
	case "byns":
		m, err := ms.FindModuleByNamespace(op.Arg)
		if err != nil {
			return "byns-error"
		}
		return "byns:" + m.Name
	case "ro":
		if e.ReadOnly() {
			return "ro:true"
		}
		return "ro:false"
	case "defaults":
		dv := e.DefaultValues()
		sv, ok := e.SingleDefaultValue()
		r := "defaults:" + strings.Join(dv, ",") + "|" + sv
		if ok {
			r += "|single"
		}
		return r
	case "errors":
		errs := e.GetErrors()
		if len(errs) == 0 {
			return "errors:0"
		}
		return "errors:n"
	case "path":
		return "path:" + e.Path()
	case "kind":
		r := "kind:" + e.Kind.String()
		if e.Modules() != nil {
			r += "M"
		}
		if w, ok := e.GetWhenXPath(); ok {
			r += "when=" + w
		}
		for _, b := range []bool{e.IsDir(), e.IsLeaf(), e.IsLeafList(), e.IsList(), e.IsContainer(), e.IsChoice(), e.IsCase()} {
			if b {
				r += "1"
			} else {
				r += "0"
			}
		}
		return r
	case "print":
		var b bytes.Buffer
		e.Print(&b)
		return "print:" + b.String()
	}
	return "unknown-op"
}

func (c19Driver) Run(cc core.Case) core.Outcome {
	c := cc.(*c19Case)
	var o core.Outcome
	o.Key = tape.Hash64(core.MarshalCase(c))
	maporder.InstallSortedStateless()
	defer maporder.Uninstall()
	zzsim.FS = fsim.Empty{} // stateless: tasks share it
	defer func() { zzsim.FS = nil }()
	cfg := sched.Config{Seed: c.SchedSeed, TickSwitch: c.TickSwitch, MaxSteps: 400_000_000}
	zzsim.Ticks, zzsim.TickBudget, zzsim.MaxDepth = 0, 0, 0
	zzsim.Active = true
	defer func() { zzsim.Active = false }()

	switch c.Kind {
	case "k1":
		got := make([]string, len(c.Scenarios))
		tasks := make([]func(), len(c.Scenarios))
		pipeline := func(i int) (*yang.Modules, []error) {
			return loadAndProcessSpliced(c.Scenarios[i], spliceOf(c, i))
		}
		if c.Disk {
			files := map[string]string{}
			for i, sc := range c.Scenarios {
				for n, txt := range model.RenderAll(sc) {
					files["t"+itoa(i)+"/"+n] = txt
				}
			}
			zzsim.FS = fsim.NewStatic(files) // read-only: tasks share it
			pipeline = func(i int) (*yang.Modules, []error) { return readAndProcess(c, i) }
			o.Count("probe.k1_from_disk", 1)
		}
		for i := range c.Scenarios {
			i := i
			tasks[i] = func() {
				ms, errs := pipeline(i)
				got[i] = fullOutcome(ms, errs)
			}
		}
		st := sched.Run(cfg, tasks)
		recordSched(&o, st)
		o.Count("probe.k1_runs", 1)
		// The sequential expectation is computed after the concurrent phase, so
		// that process-wide state is as cold as the process for the tasks.
		want := make([]string, len(c.Scenarios))
		for i := range c.Scenarios {
			ms, errs := pipeline(i)
			want[i] = fullOutcome(ms, errs)
		}
		if len(c.Splice) > 0 {
			o.Count("probe.k1_with_rejected_texts", 1)
		}
		for i := range got {
			if got[i] != want[i] {
				o.Fail("k1-result-differs", "task %d: the result of load+Process+dump in parallel with %d other independent sets differs from the sequential result: %s", i, len(got)-1, firstDiff(want[i], got[i]))
				return o
			}
		}
		o.State = tape.Hash64([]byte(strings.Join(want, "\x00")))
	case "k2":
		s := c.Scenarios[0]
		// expectation from one instance, concurrent phase on a second, cold instance
		ms0, errs := loadAndProcess(s)
		if len(errs) > 0 {
			o.Discard = "scenario-not-clean"
			return o
		}
		// A lookup that does not find its node records an error in the tree: that
		// is a write, and outside the claim ("path lookup of existing nodes").
		// Operations whose sequential result is "not found" are dropped.
		// They are classified on an instance of their own, because the failed
		// lookup changes what GetErrors returns afterwards.
		msP, _ := loadAndProcess(s)
		want := make([][]string, len(c.Ops))
		run := make([][]readOp, len(c.Ops))
		for i, ops := range c.Ops {
			for _, op := range ops {
				if op.Op == "find" || op.Op == "findrel" {
					if r := doRead(msP, op); r == "find:nil" || r == "no-such-node" {
						o.Count("probe.k2_lookup_of_missing_node_dropped", 1)
						continue
					}
				} else if nodeAt(msP, op.Mod, op.Path) == nil {
					continue
				}
				run[i] = append(run[i], op)
			}
		}
		ms, errs := loadAndProcess(s)
		if len(errs) > 0 {
			o.Discard = "scenario-not-clean"
			return o
		}
		got := make([][]string, len(c.Ops))
		tasks := make([]func(), len(c.Ops))
		for i := range c.Ops {
			i := i
			tasks[i] = func() {
				for _, op := range run[i] {
					got[i] = append(got[i], doRead(ms, op))
				}
			}
		}
		st := sched.Run(cfg, tasks)
		recordSched(&o, st)
		o.Count("probe.k2_runs", 1)
		if c.PrintMix {
			o.Count("probe.k2_print_mix", 1)
		}
		// sequential expectation, after the concurrent phase (see k1)
		for i := range run {
			for _, op := range run[i] {
				want[i] = append(want[i], doRead(ms0, op))
			}
		}
		for i := range got {
			for k := range want[i] {
				g := "<missing>"
				if k < len(got[i]) {
					g = got[i][k]
				}
				if g != want[i][k] {
					o.Fail("k2-result-differs", "task %d op %d %+v: concurrent result %q, sequential result %q", i, k, run[i][k], trunc(g, 300), trunc(want[i][k], 300))
					return o
				}
				if strings.HasPrefix(g, "byns:") {
					o.Count("probe.namespace_lookups", 1)
				}
			}
		}
		o.State = tape.Hash64([]byte(fmt.Sprint(want)))
	case "k2e":
		s := c.Scenarios[0]
		ms0, errs0 := loadAndProcessSpliced(s, spliceOf(c, 0))
		ms, errs := loadAndProcessSpliced(s, spliceOf(c, 0))
		if len(errs0) == 0 || len(errs) == 0 {
			o.Discard = "scenario-clean"
			return o
		}
		// The entries are fetched before the concurrent phase (after a Process
		// that stopped early ToEntry converts, which is not a read); the tasks
		// only call accessors on them and on their children.
		collect := func(ms *yang.Modules) []*yang.Entry {
			var out []*yang.Entry
			for _, m := range dump.DistinctModules(ms.Modules) {
				e := yang.ToEntry(m)
				out = append(out, e)
				ks := make([]string, 0, len(e.Dir))
				for k := range e.Dir {
					ks = append(ks, k)
				}
				sort.Strings(ks)
				for _, k := range ks {
					out = append(out, e.Dir[k])
				}
			}
			return out
		}
		read := func(es []*yang.Entry, rot int) string {
			var sb strings.Builder
			for i := range es {
				e := es[(i+rot)%len(es)]
				if e == nil {
					continue
				}
				sb.WriteString(e.Path())
				sb.WriteString(" errors:")
				for _, err := range e.GetErrors() {
					sb.WriteString(err.Error())
					sb.WriteString("|")
				}
				if e.ReadOnly() {
					sb.WriteString(" ro")
				}
				sb.WriteString(e.Kind.String())
				sb.WriteString("\n")
			}
			return sb.String()
		}
		es := collect(ms)
		if len(es) == 0 {
			o.Discard = "no-entries"
			return o
		}
		n := c.Readers
		if n < 2 {
			n = 2
		}
		got := make([]string, n)
		tasks := make([]func(), n)
		for i := range tasks {
			i := i
			tasks[i] = func() { got[i] = read(es, i) }
		}
		st := sched.Run(cfg, tasks)
		recordSched(&o, st)
		o.Count("probe.k2e_runs", 1)
		es0 := collect(ms0)
		for i := range got {
			if want := read(es0, i); got[i] != want {
				o.Fail("k2e-result-differs", "reader %d of a set whose Process reported errors: concurrent result differs from the sequential one: %s", i, firstDiff(want, got[i]))
				return o
			}
		}
		o.State = tape.Hash64([]byte(got[0]))
	default:
		o.Discard = "unknown-kind"
	}
	return o
}

func recordSched(o *core.Outcome, st sched.Stats) {
	o.Sched = st.Hash
	o.Ticks = zzsim.Ticks
	o.Count("sched.yield_points", int64(st.Yields))
	o.Count("sched.switches", int64(st.Switches))
	o.Count("sched.lock_points", int64(st.LockYields))
	o.Count("sched.blocked_on_lock", int64(st.Blocked))
	if st.Blocked > 0 {
		o.Count("probe.lock_contended_in_schedule", 1)
	}
	if st.HeldSwitch > 0 {
		o.Count("probe.switched_at_lock_point", 1)
	}
	if st.Switches > 0 {
		o.Nontrivial = true
	}
	if st.NoProgress {
		o.Fail("no-progress", "every runnable task kept failing to take a lock for 200000 consecutive yields (a lock is never released)")
	}
	if st.OutOfSteps {
		o.Fail("out-of-steps", "the tasks did not finish within %d scheduling decisions", 400_000_000)
	}
}

func (c19Driver) Shrink(cc core.Case) []core.Case {
	c := cc.(*c19Case)
	var out []core.Case
	clone := func() *c19Case {
		b, _ := json.Marshal(c)
		n := &c19Case{}
		json.Unmarshal(b, n)
		return n
	}
	if c.PrintMix {
		// drop pool-using operations first
		n := clone()
		n.PrintMix = false
		for i := range n.Ops {
			var ops []readOp
			for _, op := range n.Ops[i] {
				if op.Op != "print" {
					ops = append(ops, op)
				}
			}
			n.Ops[i] = ops
		}
		out = append(out, n)
	}
	if c.Kind == "k1" && len(c.Scenarios) > 2 {
		for i := range c.Scenarios {
			n := clone()
			n.Scenarios = append(n.Scenarios[:i], n.Scenarios[i+1:]...)
			if i < len(n.Splice) {
				n.Splice = append(n.Splice[:i], n.Splice[i+1:]...)
			}
			if i < len(n.Roots) {
				n.Roots = append(n.Roots[:i], n.Roots[i+1:]...)
			}
			out = append(out, n)
		}
	}
	if c.Kind == "k2" {
		if len(c.Ops) > 2 {
			for i := range c.Ops {
				n := clone()
				n.Ops = append(n.Ops[:i], n.Ops[i+1:]...)
				out = append(out, n)
			}
		}
		for i := range c.Ops {
			if len(c.Ops[i]) > 1 {
				n := clone()
				n.Ops[i] = n.Ops[i][:len(n.Ops[i])/2]
				out = append(out, n)
				n = clone()
				n.Ops[i] = n.Ops[i][len(n.Ops[i])/2:]
				out = append(out, n)
			}
		}
	}
	if c.TickSwitch != 0 {
		n := clone()
		n.TickSwitch = 0
		out = append(out, n)
	}
	for k := uint64(1); k <= 4; k++ {
		n := clone()
		n.SchedSeed = c.SchedSeed + k
		out = append(out, n)
	}
	return out
}

func (c19Driver) Describe(cc core.Case) string {
	c := cc.(*c19Case)
	var sb strings.Builder
	fmt.Fprintf(&sb, "kind=%s tasks=%d sched_seed=%d tick_switch=%d print_mix=%v\n", c.Kind, max(len(c.Ops), len(c.Scenarios)), c.SchedSeed, c.TickSwitch, c.PrintMix)
	for i, s := range c.Scenarios {
		t := model.RenderAll(s)
		for _, n := range sortedNames(t) {
			fmt.Fprintf(&sb, "---- set %d %s\n%s\n", i, n, t[n])
		}
	}
	for i, ops := range c.Ops {
		fmt.Fprintf(&sb, "task %d: %d ops\n", i, len(ops))
	}
	return sb.String()
}
