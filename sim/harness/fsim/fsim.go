// Package fsim is the simulated disk behind seam R4.  It holds an in-memory
// tree with "." as the current directory, lists directories sorted by name
// like ioutil.ReadDir, logs every access, and injects storage faults at a
// seeded (path, occurrence) so that a fault lands inside an operation.
package fsim

import (
	"errors"
	"io/fs"
	"os"
	"path"
	"sort"
	"strings"
	"time"

	"github.com/openconfig/goyang/pkg/zzsim"
)

// Fault kinds.
const (
	ENOENT   = "ENOENT"   // file lost: ReadFile fails with not-exist
	EIO      = "EIO"      // ReadFile fails with an I/O error
	DIRERR   = "DIRERR"   // ReadDir fails
	VANISH   = "VANISH"   // listed by ReadDir, gone when read (ENOENT on the read after a listing)
	SHORT    = "SHORT"    // ReadFile returns a prefix of the content, no error
	TORN     = "TORN"     // a middle block is missing
	FLIP     = "FLIP"     // one flipped bit
	DUPBLOCK = "DUPBLOCK" // a block appears twice
	STALE    = "STALE"    // content of another file under this name
	GARBAGE  = "GARBAGE"  // many flipped bits
)

// AllFileFaults lists the kinds that apply to ReadFile.
var AllFileFaults = []string{ENOENT, EIO, VANISH, SHORT, TORN, FLIP, DUPBLOCK, STALE, GARBAGE}

// Fault is one planned storage fault.
type Fault struct {
	Kind string `json:"kind"`
	Path string `json:"path"`           // cleaned path of the file or directory
	Nth  int    `json:"nth"`            // fires on the Nth access (0-based) to Path with the matching operation
	A    int    `json:"a,omitempty"`    // offset / block start / bit index
	B    int    `json:"b,omitempty"`    // block length / second parameter
	From string `json:"from,omitempty"` // STALE: path whose content is served instead
}

// Access is one logged disk access.
type Access struct {
	Op    string // "readfile" or "readdir"
	Path  string
	OK    bool
	Fault string
}

// Disk is the simulated disk.
type Disk struct {
	Files  map[string]string
	Faults []Fault
	Log    []Access
	Fired  map[string]int
	count  map[string]int
	// Sticky faults keep firing on every later access (a file that stays lost).
	Sticky bool
}

// New returns a disk holding files (path -> content).
func New(files map[string]string) *Disk {
	d := &Disk{Files: map[string]string{}, Fired: map[string]int{}, count: map[string]int{}}
	for k, v := range files {
		d.Files[Clean(k)] = v
	}
	return d
}

// Clean normalises a path relative to the simulated current directory.
func Clean(p string) string {
	p = path.Clean(strings.ReplaceAll(p, "\\", "/"))
	p = strings.TrimPrefix(p, "./")
	return p
}

var errIO = errors.New("input/output error (simulated)")

func (d *Disk) fault(op, p string) *Fault {
	key := op + ":" + p
	n := d.count[key]
	d.count[key]++
	for i := range d.Faults {
		f := &d.Faults[i]
		if f.Path != p {
			continue
		}
		isDir := f.Kind == DIRERR
		if isDir != (op == "readdir") {
			continue
		}
		if f.Nth == n || (d.Sticky && n > f.Nth) {
			return f
		}
	}
	return nil
}

// ReadFile implements zzsim.FileSystem.
func (d *Disk) ReadFile(name string) ([]byte, error) {
	p := Clean(name)
	content, ok := d.Files[p]
	f := d.fault("readfile", p)
	if !ok {
		d.Log = append(d.Log, Access{Op: "readfile", Path: p})
		return nil, &fs.PathError{Op: "open", Path: name, Err: fs.ErrNotExist}
	}
	if f == nil {
		d.Log = append(d.Log, Access{Op: "readfile", Path: p, OK: true})
		return []byte(content), nil
	}
	d.Fired[f.Kind]++
	b := []byte(content)
	switch f.Kind {
	case ENOENT, VANISH:
		d.Log = append(d.Log, Access{Op: "readfile", Path: p, Fault: f.Kind})
		return nil, &fs.PathError{Op: "open", Path: name, Err: fs.ErrNotExist}
	case EIO:
		d.Log = append(d.Log, Access{Op: "readfile", Path: p, Fault: f.Kind})
		return nil, &fs.PathError{Op: "read", Path: name, Err: errIO}
	case SHORT:
		if len(b) > 0 {
			b = b[:f.A%len(b)]
		}
	case TORN:
		if len(b) > 1 {
			a := f.A % len(b)
			l := 1 + f.B%(len(b)-a)
			b = append(append([]byte{}, b[:a]...), b[a+l:]...)
		}
	case FLIP:
		if len(b) > 0 {
			i := (f.A / 8) % len(b)
			b[i] ^= 1 << (uint(f.A) % 8)
		}
	case GARBAGE:
		if len(b) > 0 {
			x := uint64(f.A)*2654435761 + 1
			for k := 0; k < 30+f.B%40; k++ {
				x = x*6364136223846793005 + 1442695040888963407
				i := int(x>>33) % len(b)
				b[i] ^= 1 << (uint(x>>29) % 8)
			}
		}
	case DUPBLOCK:
		if len(b) > 1 {
			a := f.A % len(b)
			l := 1 + f.B%(len(b)-a)
			nb := append([]byte{}, b[:a+l]...)
			nb = append(nb, b[a:a+l]...)
			nb = append(nb, b[a+l:]...)
			b = nb
		}
	case STALE:
		if other, ok := d.Files[Clean(f.From)]; ok {
			b = []byte(other)
		}
	}
	d.Log = append(d.Log, Access{Op: "readfile", Path: p, OK: true, Fault: f.Kind})
	return b, nil
}

type info struct {
	name string
	dir  bool
	size int64
}

func (i info) Name() string { return i.name }
func (i info) Size() int64  { return i.size }
func (i info) Mode() fs.FileMode {
	if i.dir {
		return fs.ModeDir | 0o755
	}
	return 0o644
}
func (i info) ModTime() time.Time { return time.Time{} }
func (i info) IsDir() bool        { return i.dir }
func (i info) Sys() interface{}   { return nil }

// ReadDir implements zzsim.FileSystem.
func (d *Disk) ReadDir(name string) ([]fs.FileInfo, error) {
	p := Clean(name)
	if f := d.fault("readdir", p); f != nil {
		d.Fired[f.Kind]++
		d.Log = append(d.Log, Access{Op: "readdir", Path: p, Fault: f.Kind})
		return nil, &fs.PathError{Op: "open", Path: name, Err: errIO}
	}
	prefix := p + "/"
	if p == "." {
		prefix = ""
	}
	ents := map[string]info{}
	found := p == "."
	for fp, content := range d.Files {
		if !strings.HasPrefix(fp, prefix) {
			continue
		}
		found = true
		rest := fp[len(prefix):]
		if i := strings.Index(rest, "/"); i >= 0 {
			ents[rest[:i]] = info{name: rest[:i], dir: true}
		} else {
			ents[rest] = info{name: rest, size: int64(len(content))}
		}
	}
	if _, isFile := d.Files[p]; isFile {
		d.Log = append(d.Log, Access{Op: "readdir", Path: p})
		return nil, &fs.PathError{Op: "readdirent", Path: name, Err: errors.New("not a directory")}
	}
	if !found {
		d.Log = append(d.Log, Access{Op: "readdir", Path: p})
		return nil, &fs.PathError{Op: "open", Path: name, Err: os.ErrNotExist}
	}
	names := make([]string, 0, len(ents))
	for n := range ents {
		names = append(names, n)
	}
	sort.Strings(names)
	out := make([]fs.FileInfo, len(names))
	for i, n := range names {
		out[i] = ents[n]
	}
	d.Log = append(d.Log, Access{Op: "readdir", Path: p, OK: true})
	return out, nil
}

// Opened lists, in order, the files whose content was served (possibly damaged).
func (d *Disk) Opened() []string {
	var out []string
	for _, a := range d.Log {
		if a.Op == "readfile" && a.OK {
			out = append(out, a.Path)
		}
	}
	return out
}

// Stat implements zzsim.FileSystem.
func (d *Disk) Stat(name string) (fs.FileInfo, error) {
	p := Clean(name)
	if content, ok := d.Files[p]; ok {
		d.Log = append(d.Log, Access{Op: "stat", Path: p, OK: true})
		return info{name: path.Base(p), size: int64(len(content))}, nil
	}
	prefix := p + "/"
	if p == "." {
		return info{name: ".", dir: true}, nil
	}
	for fp := range d.Files {
		if strings.HasPrefix(fp, prefix) {
			d.Log = append(d.Log, Access{Op: "stat", Path: p, OK: true})
			return info{name: path.Base(p), dir: true}, nil
		}
	}
	d.Log = append(d.Log, Access{Op: "stat", Path: p})
	return nil, &fs.PathError{Op: "stat", Path: name, Err: fs.ErrNotExist}
}

// SeamComplete reports whether every file-system access of the library is
// redirected to the simulated disk in the tree under test.  When the rewriter
// met an access it cannot redirect (os.Open, filepath.Walk, ...) the drivers that
// depend on the simulated disk discard their runs instead of misreading real
// disk behaviour as a violation.
func SeamComplete() bool {
	for _, w := range zzsim.Warnings {
		if strings.Contains(w, "is not redirected to the simulated disk") && strings.HasPrefix(w, "pkg/") {
			return false
		}
	}
	return true
}

// Empty is a stateless simulated disk without any file: every lookup fails
// with "not exist".  Unlike Disk it keeps no access log, so tasks of the
// scheduler driver (C19) may share it.
type Empty struct{}

func (Empty) ReadFile(name string) ([]byte, error) {
	return nil, &fs.PathError{Op: "open", Path: name, Err: fs.ErrNotExist}
}

func (Empty) ReadDir(name string) ([]fs.FileInfo, error) {
	return nil, &fs.PathError{Op: "open", Path: name, Err: fs.ErrNotExist}
}

func (Empty) Stat(name string) (fs.FileInfo, error) {
	return nil, &fs.PathError{Op: "stat", Path: name, Err: fs.ErrNotExist}
}

// Static is a stateless, read-only simulated disk: a fixed set of files, no
// faults, no access log, nothing written after construction.  Tasks of the
// scheduler driver (C19) may share one.
type Static struct {
	files map[string]string
	dirs  map[string][]fs.FileInfo // directory -> name-sorted entries
}

// NewStatic returns a read-only disk holding files (path -> content).
func NewStatic(files map[string]string) *Static {
	s := &Static{files: map[string]string{}, dirs: map[string][]fs.FileInfo{}}
	ents := map[string]map[string]info{}
	put := func(dir string, i info) {
		if ents[dir] == nil {
			ents[dir] = map[string]info{}
		}
		ents[dir][i.name] = i
	}
	for k, v := range files {
		p := Clean(k)
		s.files[p] = v
		put(path.Dir(p), info{name: path.Base(p), size: int64(len(v))})
		for d := path.Dir(p); d != "."; d = path.Dir(d) {
			put(path.Dir(d), info{name: path.Base(d), dir: true})
		}
	}
	if ents["."] == nil {
		ents["."] = map[string]info{}
	}
	for d, m := range ents {
		names := make([]string, 0, len(m))
		for n := range m {
			names = append(names, n)
		}
		sort.Strings(names)
		for _, n := range names {
			s.dirs[d] = append(s.dirs[d], m[n])
		}
		if s.dirs[d] == nil {
			s.dirs[d] = []fs.FileInfo{}
		}
	}
	return s
}

func (s *Static) ReadFile(name string) ([]byte, error) {
	if c, ok := s.files[Clean(name)]; ok {
		return []byte(c), nil
	}
	return nil, &fs.PathError{Op: "open", Path: name, Err: fs.ErrNotExist}
}

func (s *Static) ReadDir(name string) ([]fs.FileInfo, error) {
	p := Clean(name)
	if l, ok := s.dirs[p]; ok {
		return append([]fs.FileInfo(nil), l...), nil
	}
	if _, isFile := s.files[p]; isFile {
		return nil, &fs.PathError{Op: "readdirent", Path: name, Err: errors.New("not a directory")}
	}
	return nil, &fs.PathError{Op: "open", Path: name, Err: os.ErrNotExist}
}

func (s *Static) Stat(name string) (fs.FileInfo, error) {
	p := Clean(name)
	if c, ok := s.files[p]; ok {
		return info{name: path.Base(p), size: int64(len(c))}, nil
	}
	if _, ok := s.dirs[p]; ok {
		return info{name: path.Base(p), dir: true}, nil
	}
	return nil, &fs.PathError{Op: "stat", Path: name, Err: fs.ErrNotExist}
}
