// Package world executes operation histories against the real (instrumented)
// goyang library with the simulated disk, the map-order oracle and simulated
// time installed, and records what every call returned.
package world

import (
	"fmt"
	"os"
	"runtime"
	"sort"
	"strings"

	"github.com/openconfig/goyang/pkg/yang"
	"github.com/openconfig/goyang/pkg/zzsim"
	"github.com/openconfig/goyang/zzverif/dump"
	"github.com/openconfig/goyang/zzverif/fsim"
	"github.com/openconfig/goyang/zzverif/maporder"
)

// Budgets of simulated time and call depth for one API call.
const (
	TickBudget = 50_000_000
	MaxDepth   = 5000
)

// Op is one operation of a history.
type Op struct {
	Op   string `json:"op"`             // parse | read | process | getmodule | query | addpath
	Name string `json:"name,omitempty"` // parse: key into Texts and source name; read/getmodule: module or file name
	Arg  string `json:"arg,omitempty"`  // query: path for Find
}

// Options mirrors yang.Options.
type Options struct {
	IgnoreCircDeps     bool `json:"ignore_circdeps,omitempty"`
	StoreUses          bool `json:"store_uses,omitempty"`
	IgnoreNotSupported bool `json:"ignore_not_supported,omitempty"`
}

// Spec is a complete description of one execution.
type Spec struct {
	Texts   map[string]string  `json:"texts,omitempty"` // source name -> text, for parse ops
	Disk    map[string]string  `json:"disk,omitempty"`  // simulated disk content
	Faults  []fsim.Fault       `json:"faults,omitempty"`
	Sticky  bool               `json:"sticky,omitempty"`
	Path    []string           `json:"path,omitempty"`
	Options Options            `json:"options,omitempty"`
	Sched   *maporder.Schedule `json:"sched,omitempty"`
	Ops     []Op               `json:"ops"`
	// QueryAnytime lets queries run even when no clean Process precedes them.
	QueryAnytime bool `json:"query_anytime,omitempty"`
	// QueryAfterErrors lets queries run after a Process that returned errors
	// (but not after a load that has not been processed yet).
	QueryAfterErrors bool `json:"query_after_errors,omitempty"`
}

// OpResult is what one operation returned.
type OpResult struct {
	Op      Op
	Err     string   // parse/read error text ("" = nil)
	Errs    []string // process/getmodule errors in returned order
	Dump    string   // process without errors: full canonical dump; query: result text
	Panic   string   // recovered panic value ("" = none)
	Frame   string   // first goyang frame of the panic stack
	Stack   string
	Ticks   uint64
	Depth   int
	Overrun string // "ticks" or "depth" when a simulated bound was exceeded
	// Loaded (getmodule): the module was not in the set before the call and is
	// in it afterwards, i.e. GetModule read it from the search path.
	Loaded bool
	// OnDemand (process, getmodule): source names of the modules and
	// submodules that the call added to the set by reading them from the
	// search path, sorted.
	OnDemand []string
}

// Result is the outcome of a Spec.
type Result struct {
	Ops   []OpResult
	Ticks uint64
	Rec   *maporder.Recorder
	Disk  *fsim.Disk
	MS    *yang.Modules
}

// FirstPanic returns the first operation that panicked or overran, or nil.
func (r *Result) FirstPanic() *OpResult {
	for i := range r.Ops {
		if r.Ops[i].Panic != "" || r.Ops[i].Overrun != "" {
			return &r.Ops[i]
		}
	}
	return nil
}

func goyangFrame(stack string) string {
	lines := strings.Split(stack, "\n")
	for _, l := range lines {
		l = strings.TrimSpace(l)
		if !strings.HasPrefix(l, "github.com/openconfig/goyang") {
			continue
		}
		if strings.Contains(l, "/zzsim.") || strings.Contains(l, "/zzverif/") {
			continue
		}
		if i := strings.LastIndex(l, "("); i > 0 {
			l = l[:i]
		}
		l = strings.TrimPrefix(l, "github.com/openconfig/goyang/")
		return strings.TrimPrefix(l, "pkg/")
	}
	return "?"
}

var devnull *os.File

// guard runs f as one API call under the simulated-time and depth budgets and
// turns a panic into a recorded result.
func guard(res *OpResult, f func()) {
	zzsim.Ticks = 0
	zzsim.Depth = 0
	zzsim.DepthSeen = 0
	zzsim.TickBudget = TickBudget
	zzsim.MaxDepth = MaxDepth
	zzsim.Active = true
	defer func() {
		zzsim.Active = false
		res.Ticks = zzsim.Ticks
		res.Depth = zzsim.DepthSeen
		if r := recover(); r != nil {
			if o, ok := r.(zzsim.Overrun); ok {
				res.Overrun = o.What
				res.Frame = o.Site
				return
			}
			buf := make([]byte, 64<<10)
			n := runtime.Stack(buf, false)
			res.Panic = fmt.Sprint(r)
			res.Stack = string(buf[:n])
			res.Frame = goyangFrame(res.Stack)
		}
	}()
	f()
}

func errStrings(errs []error) []string {
	out := make([]string, 0, len(errs))
	for _, e := range errs {
		if e == nil {
			out = append(out, "<nil error in list>")
		} else {
			out = append(out, e.Error())
		}
	}
	return out
}

// sourcesOf maps every loaded (sub)module object to the name of its source.
func sourcesOf(ms *yang.Modules) map[*yang.Module]string {
	out := map[*yang.Module]string{}
	for _, set := range []map[string]*yang.Module{ms.Modules, ms.SubModules} {
		for _, m := range set {
			if m == nil || out[m] != "" {
				continue
			}
			loc := yang.Source(m) // file:line:col
			for k := 0; k < 2; k++ {
				if i := strings.LastIndex(loc, ":"); i >= 0 {
					loc = loc[:i]
				}
			}
			out[m] = loc
		}
	}
	return out
}

func onDemand(before map[*yang.Module]string, ms *yang.Modules) []string {
	var out []string
	for m, src := range sourcesOf(ms) {
		if _, ok := before[m]; !ok {
			out = append(out, src)
		}
	}
	sort.Strings(out)
	return out
}

// Exec runs a history on a fresh Modules.
func Exec(s *Spec) *Result {
	res := &Result{Rec: maporder.NewRecorder()}
	sched := s.Sched
	if sched == nil {
		sched = maporder.Canonical()
	}
	maporder.Install(sched, res.Rec)
	defer maporder.Uninstall()
	disk := fsim.New(s.Disk)
	disk.Faults = append([]fsim.Fault(nil), s.Faults...)
	disk.Sticky = s.Sticky
	zzsim.FS = disk
	defer func() { zzsim.FS = nil }()
	res.Disk = disk

	// The lexer writes syntax errors to os.Stderr in one code path only when
	// no error sink is given; Parse() collects them itself.  Nothing to do.
	ms := yang.NewModules()
	res.MS = ms
	ms.ParseOptions.IgnoreSubmoduleCircularDependencies = s.Options.IgnoreCircDeps
	ms.ParseOptions.StoreUses = s.Options.StoreUses
	ms.ParseOptions.DeviateOptions.IgnoreDeviateNotSupported = s.Options.IgnoreNotSupported
	if len(s.Path) > 0 {
		ms.AddPath(s.Path...)
	}
	// Read access is only defined on what a clean Process has produced: a
	// query issued before any Process, after a Process that reported errors,
	// or after a later load that has not been processed yet is API misuse and
	// is skipped (recorded as such).
	readable := false
	for _, op := range s.Ops {
		r := OpResult{Op: op}
		if op.Op == "query" && !readable && !s.QueryAnytime {
			r.Dump = "(skipped: no clean Process since the last load)"
			res.Ops = append(res.Ops, r)
			continue
		}
		switch op.Op {
		case "parse":
			text, ok := s.Texts[op.Name]
			if !ok {
				r.Err = "harness: no such text " + op.Name
				break
			}
			guard(&r, func() {
				if err := ms.Parse(text, op.Name); err != nil {
					r.Err = err.Error()
					if r.Err == "" {
						r.Err = "(empty error text)"
					}
				}
			})
		case "read":
			guard(&r, func() {
				if err := ms.Read(op.Name); err != nil {
					r.Err = err.Error()
					if r.Err == "" {
						r.Err = "(empty error text)"
					}
				}
			})
		case "addpath":
			guard(&r, func() { ms.AddPath(op.Name) })
		case "process":
			before := sourcesOf(ms)
			guard(&r, func() {
				errs := ms.Process()
				r.Errs = errStrings(errs)
				if len(errs) == 0 {
					r.Dump = dump.Full(ms, true)
				}
			})
			r.OnDemand = onDemand(before, ms)
		case "getmodule":
			before := sourcesOf(ms)
			absent := ms.Modules[op.Name] == nil
			guard(&r, func() {
				e, errs := ms.GetModule(op.Name)
				r.Errs = errStrings(errs)
				if e != nil {
					r.Dump = "entry " + e.Name + "\n"
					if len(errs) == 0 {
						r.Dump += dump.Full(ms, true)
					}
				}
			})
			r.Loaded = absent && ms.Modules[op.Name] != nil
			r.OnDemand = onDemand(before, ms)
		case "query":
			guard(&r, func() { r.Dump = Query(ms, op.Arg) })
		default:
			r.Err = "harness: unknown op " + op.Op
		}
		switch op.Op {
		case "parse", "read", "addpath":
			readable = false
		case "process":
			readable = r.Panic == "" && r.Overrun == "" && (len(r.Errs) == 0 || s.QueryAfterErrors)
		case "getmodule":
			readable = r.Panic == "" && r.Overrun == "" && len(r.Errs) == 0
		}
		res.Ticks += r.Ticks
		res.Ops = append(res.Ops, r)
	}
	return res
}

// sideRead calls the read accessors on an entry that is reachable from a tree
// without being one of its nodes (it may have no parent, and its root may be
// a grouping, an augment or a deviation rather than a module).
func sideRead(sb *strings.Builder, what string, x *yang.Entry, arg string) {
	if x == nil {
		return
	}
	fmt.Fprintf(sb, "  %s %s: path=%s ro=%v errors=%d", what, x.Name, x.Path(), x.ReadOnly(), len(x.GetErrors()))
	if ns := x.Namespace(); ns != nil {
		fmt.Fprintf(sb, " ns=%s", ns.Name)
	}
	if im, err := x.InstantiatingModule(); err == nil {
		fmt.Fprintf(sb, " inst=%s", im)
	}
	if _, ok := x.SingleDefaultValue(); ok {
		sb.WriteString(" dv")
	}
	for _, p := range []string{arg, x.Path(), "/" + x.Name, ".."} {
		if p == "" {
			continue
		}
		if f := x.Find(p); f != nil {
			fmt.Fprintf(sb, " find(%s)=%s", p, f.Path())
		}
	}
	var pb strings.Builder
	x.Print(&pb)
	fmt.Fprintf(sb, " print=%d\n", pb.Len())
}

// Query exercises the read API on whatever trees exist and renders the
// results; used by histories (C01, C18) to check that reads neither crash nor
// change later results.
func Query(ms *yang.Modules, arg string) string {
	var sb strings.Builder
	keys := make([]string, 0, len(ms.Modules))
	for k := range ms.Modules {
		keys = append(keys, k)
	}
	sort.Strings(keys)
	for _, k := range keys {
		m := ms.Modules[k]
		e := yang.ToEntry(m)
		fmt.Fprintf(&sb, "%s: errors=%d\n", k, len(e.GetErrors()))
		budget := dump.NodeBudget
		var walk func(e *yang.Entry, depth int)
		walk = func(e *yang.Entry, depth int) {
			budget--
			if e == nil || depth > 40 || budget < 0 {
				return
			}
			fmt.Fprintf(&sb, "%s ro=%v ns=%s", e.Path(), e.ReadOnly(), e.Namespace().Name)
			if im, err := e.InstantiatingModule(); err == nil {
				fmt.Fprintf(&sb, " inst=%s", im)
			}
			if dv, ok := e.SingleDefaultValue(); ok {
				fmt.Fprintf(&sb, " dv=%q", dv)
			}
			sb.WriteString("\n")
			// entries the tree exposes besides its children: the grouping entries
			// kept with StoreUses, the augments merged into e, the deviations a
			// module entry lists
			for _, u := range e.Uses {
				if u != nil {
					sideRead(&sb, "uses-grouping", u.Grouping, arg)
				}
			}
			for _, a := range e.Augmented {
				sideRead(&sb, "augmented", a, arg)
			}
			for _, a := range e.Augments {
				sideRead(&sb, "augments", a, arg)
			}
			for _, d := range e.Deviations {
				if d != nil {
					sideRead(&sb, "deviation "+d.DeviatedPath, d.Entry, arg)
				}
			}
			if f := e.Find(e.Path()); f != nil && f != e && depth > 0 {
				// absolute lookup of an unprefixed path is relative to e; not an error
			}
			ks := make([]string, 0, len(e.Dir))
			for k := range e.Dir {
				ks = append(ks, k)
			}
			sort.Strings(ks)
			for _, k := range ks {
				walk(e.Dir[k], depth+1)
			}
		}
		walk(e, 0)
		if arg != "" {
			if f := e.Find(arg); f != nil {
				fmt.Fprintf(&sb, "find %s -> %s\n", arg, f.Path())
			} else {
				fmt.Fprintf(&sb, "find %s -> nil\n", arg)
			}
		}
		var pb strings.Builder
		e.Print(&pb)
		fmt.Fprintf(&sb, "print: %d bytes\n", pb.Len())
	}
	// lookup on the statement trees (modules and submodules)
	if arg != "" {
		for _, set := range []map[string]*yang.Module{ms.Modules, ms.SubModules} {
			keys := make([]string, 0, len(set))
			for k := range set {
				keys = append(keys, k)
			}
			sort.Strings(keys)
			for _, k := range keys {
				n, err := yang.FindNode(set[k], arg)
				switch {
				case err != nil:
					fmt.Fprintf(&sb, "findnode %s in %s -> error\n", arg, k)
				case n == nil:
					fmt.Fprintf(&sb, "findnode %s in %s -> nil\n", arg, k)
				default:
					fmt.Fprintf(&sb, "findnode %s in %s -> %s %s\n", arg, k, n.Kind(), n.NName())
				}
			}
		}
	}
	return sb.String()
}
