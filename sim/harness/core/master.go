package core

import (
	"bufio"
	"bytes"
	"encoding/json"
	"fmt"
	"os"
	"os/exec"
	"path/filepath"
	"sort"
	"strconv"
	"strings"
	"sync"
	"time"

	"github.com/openconfig/goyang/zzverif/tape"
)

// CheckOpts configures one check (one property, one tier).
type CheckOpts struct {
	Tier         string
	Seed         uint64
	Workers      int
	Exe          string // this binary
	RaceExe      string // the -race build of this binary (C19)
	EvidencePath string
	ReplayDir    string
	KnownPath    string
	ScratchDir   string
	VerifDir     string
	RunsOverride int
}

type foundViolation struct {
	Run     int
	Outcome Outcome
	Case    Case
	Known   *Finding
}

type master struct {
	d       Driver
	o       CheckOpts
	exe     string
	n       int
	every   int
	mu      sync.Mutex
	viol    []foundViolation
	sums    []workerSummary
	trouble []string
	crashes int
}

// LoadFindings reads the known-findings file (missing file = none).
func LoadFindings(path string) ([]Finding, error) {
	b, err := os.ReadFile(path)
	if err != nil {
		if os.IsNotExist(err) {
			return nil, nil
		}
		return nil, err
	}
	var f struct {
		Findings []Finding `json:"findings"`
	}
	if err := json.Unmarshal(b, &f); err != nil {
		return nil, fmt.Errorf("%s: %v", path, err)
	}
	return f.Findings, nil
}

// Check runs one property's check and returns the process exit code:
// 0 held, 1 violation, 2 machinery trouble.
func Check(d Driver, o CheckOpts) int {
	start := time.Now()
	info := d.Info()
	tier := d.Tier(o.Tier)
	if o.RunsOverride > 0 {
		tier.Runs = o.RunsOverride
	}
	if tier.AnnounceEvery < 1 {
		tier.AnnounceEvery = 1
	}
	m := &master{d: d, o: o, exe: o.Exe, n: tier.Runs, every: tier.AnnounceEvery}
	if info.Race {
		if o.RaceExe == "" {
			fmt.Println("machinery trouble: race build of the harness not provided")
			return 2
		}
		m.exe = o.RaceExe
	}
	if o.Workers < 1 {
		o.Workers = 1
	}
	if o.Workers > m.n {
		o.Workers = m.n
	}
	m.o = o
	fmt.Printf("check %s tier=%s seed=%d runs=%d workers=%d\n", d.ID(), o.Tier, o.Seed, m.n, o.Workers)

	findings, err := LoadFindings(o.KnownPath)
	if err != nil {
		fmt.Println("machinery trouble:", err)
		return 2
	}
	// 1. Replay every open finding of this property first.
	knownPrinted := 0
	for i := range findings {
		f := &findings[i]
		if f.Property != d.ID() || f.Status != "open" {
			continue
		}
		if f.Replay == "" {
			continue
		}
		raw, err := os.ReadFile(filepath.Join(o.VerifDir, f.Replay))
		if err != nil {
			fmt.Println("machinery trouble: known finding replay:", err)
			return 2
		}
		var rp Replay
		if err := json.Unmarshal(raw, &rp); err != nil {
			fmt.Println("machinery trouble: known finding replay:", err)
			return 2
		}
		c, err := d.Decode(rp.Case)
		if err != nil {
			fmt.Println("machinery trouble: known finding replay:", err)
			return 2
		}
		oc := m.evalChild(c)
		if oc.Class != "" && f.Matches(d.ID(), &oc) {
			fmt.Printf("KNOWN-FINDING: property=%s %s [%s; replay=%s]\n", d.ID(), f.What, f.ID, f.Replay)
			knownPrinted++
		} else if oc.Class != "" {
			// The committed case now fails differently: that is a new violation.
			m.viol = append(m.viol, foundViolation{Run: -1, Outcome: oc, Case: c})
		} else {
			fmt.Printf("note: open finding %s no longer reproduces on this tree\n", f.ID)
		}
	}

	// 2. Fan out.
	var wg sync.WaitGroup
	for k := 0; k < o.Workers; k++ {
		wg.Add(1)
		go func(k int) {
			defer wg.Done()
			m.runSlot(k)
		}(k)
	}
	wg.Wait()

	// 3. Merge.
	total := workerSummary{Discards: map[string]int64{}, Counters: map[string]int64{}}
	for _, s := range m.sums {
		total.Evaluations += s.Evaluations
		total.Nontrivial += s.Nontrivial
		total.Violations += s.Violations
		total.Ticks += s.Ticks
		for k, v := range s.Discards {
			total.Discards[k] += v
		}
		for k, v := range s.Counters {
			total.Counters[k] += v
		}
		if len(total.Samples) < 4 {
			total.Samples = append(total.Samples, s.Samples...)
		}
	}
	if len(total.Samples) > 4 {
		total.Samples = total.Samples[:4]
	}
	log2 := bitmapLog2(o.Tier)
	distinct := map[string]int{}
	for _, kind := range []string{"keys", "states", "scheds"} {
		acc := newBitmap(log2)
		for k := 0; k < o.Workers; k++ {
			p := filepath.Join(o.ScratchDir, fmt.Sprintf("%s-w%d.%s", d.ID(), k, kind))
			b := newBitmap(log2)
			if err := b.read(p); err == nil {
				acc.or(b)
			}
			os.Remove(p)
		}
		distinct[kind] = acc.count()
	}

	// 4. Classify violations: known vs new; minimise and report new ones.
	sort.SliceStable(m.viol, func(i, j int) bool { return m.viol[i].Run < m.viol[j].Run })
	newByClass := map[string]*foundViolation{}
	var classOrder []string
	knownHits := map[string]int{}
	for i := range m.viol {
		v := &m.viol[i]
		for j := range findings {
			if findings[j].Matches(d.ID(), &v.Outcome) {
				v.Known = &findings[j]
				break
			}
		}
		if v.Known != nil {
			knownHits[v.Known.ID]++
			continue
		}
		if v.Outcome.Class == "harness-panic" {
			m.trouble = append(m.trouble, "harness panic in run "+strconv.Itoa(v.Run)+": "+v.Outcome.Detail)
			continue
		}
		if _, ok := newByClass[v.Outcome.Class]; !ok {
			newByClass[v.Outcome.Class] = v
			classOrder = append(classOrder, v.Outcome.Class)
		}
	}
	for id, n := range knownHits {
		fmt.Printf("note: %d random runs hit open finding %s\n", n, id)
	}
	reported := 0
	os.MkdirAll(o.ReplayDir, 0o755)
	for ci, class := range classOrder {
		if ci >= 5 {
			break
		}
		v := newByClass[class]
		c, oc, steps := m.shrink(v.Case, v.Outcome)
		if f, ok := d.(interface{ Finalize(Case) }); ok {
			f.Finalize(c)
		}
		conf := 0
		for i := 0; i < 3; i++ {
			if r := m.evalChildTimeout(c, 120*time.Second); r.Class == oc.Class {
				conf++
			}
		}
		rp := Replay{Property: d.ID(), Seed: o.Seed, Run: v.Run, Class: oc.Class, Detail: oc.Detail, Culprits: oc.Culprits, Shrunk: steps, Confirmed: fmt.Sprintf("%d of 3 fresh processes", conf), Case: json.RawMessage(MarshalCase(c))}
		name := fmt.Sprintf("%s-%d-%d.json", d.ID(), o.Seed, v.Run)
		if v.Run < 0 {
			name = fmt.Sprintf("%s-%d-known%d.json", d.ID(), o.Seed, ci)
		}
		path := filepath.Join(o.ReplayDir, name)
		b, _ := json.MarshalIndent(rp, "", " ")
		if err := os.WriteFile(path, append(b, '\n'), 0o644); err != nil {
			m.trouble = append(m.trouble, err.Error())
		}
		fmt.Printf("violation class=%s run=%d shrink_steps=%d\n%s\n", oc.Class, v.Run, steps, indentText(oc.Detail))
		if conf < 3 {
			fmt.Printf("note: the minimised case failed in %d of 3 fresh processes: the tree under test behaves nondeterministically beyond the simulated schedule; the replay file may need several attempts\n", conf)
		}
		fmt.Printf("VIOLATION property=%s replay=%s\n", d.ID(), path)
		reported++
	}

	// 5. Evidence.
	wall := time.Since(start).Seconds()
	ev := buildEvidence(d, o, info, total, distinct, reported, len(m.viol), knownPrinted, m.crashes, wall, m.trouble)
	if o.EvidencePath != "" {
		os.MkdirAll(filepath.Dir(o.EvidencePath), 0o755)
		b, _ := json.MarshalIndent(ev, "", " ")
		if err := os.WriteFile(o.EvidencePath, append(b, '\n'), 0o644); err != nil {
			m.trouble = append(m.trouble, err.Error())
		}
	}
	fmt.Printf("summary %s: evaluations=%d nontrivial=%d distinct_nontrivial>=%d distinct_end_states>=%d distinct_schedules>=%d discards=%v violations=%d new_reported=%d wall=%.1fs\n",
		d.ID(), total.Evaluations, total.Nontrivial, distinct["keys"], distinct["states"], distinct["scheds"], total.Discards, len(m.viol), reported, wall)
	for _, k := range sortedKeys(total.Counters) {
		fmt.Printf("  counter %-50s %d\n", k, total.Counters[k])
	}
	if reported > 0 {
		return 1
	}
	if len(m.trouble) > 0 {
		for _, t := range m.trouble {
			fmt.Println("machinery trouble:", t)
		}
		return 2
	}
	if total.Evaluations == 0 {
		fmt.Println("machinery trouble: no run was evaluated")
		return 2
	}
	return 0
}

func indentText(s string) string {
	return "    " + strings.ReplaceAll(strings.TrimRight(s, "\n"), "\n", "\n    ")
}

// runSlot executes slot k's share (indices k, k+W, ...) in worker processes,
// restarting after a worker death with the fatal run skipped.
func (m *master) runSlot(k int) {
	if !m.d.Info().Race {
		m.runShare(k, k, m.n)
		return
	}
	// Race drivers look for unsynchronised process-wide state, which earlier
	// runs of the same process may have warmed up (a memo that is only read
	// once it is filled races on a cold start only): the share is executed in
	// segments, each in a fresh process.
	seg := raceSegment * m.o.Workers
	for from := k; from < m.n; from += seg {
		to := from + seg
		if to > m.n {
			to = m.n
		}
		if !m.runShare(k, from, to) {
			return
		}
	}
}

// raceSegment is the number of runs a worker process of a Race driver
// executes before it is replaced by a fresh one.
const raceSegment = 20

// runShare executes the runs from, from+W, ... below to of slot k; it returns
// false if the slot had to be abandoned.
func (m *master) runShare(k, from, to int) bool {
	skip := map[int]bool{}
	for attempt := 0; attempt < 6; attempt++ {
		res := m.spawnWorker(from, to, m.o.Workers, m.every, skip, true, fmt.Sprintf("%s-w%d", m.d.ID(), k))
		if res.done {
			m.mu.Lock()
			m.sums = append(m.sums, *res.sum)
			for _, v := range res.viol {
				c, err := m.d.Decode(v.Case)
				if err != nil {
					m.trouble = append(m.trouble, "cannot decode case of run "+strconv.Itoa(v.Run))
					continue
				}
				m.viol = append(m.viol, foundViolation{Run: v.Run, Outcome: v.Outcome, Case: c})
			}
			m.mu.Unlock()
			return true
		}
		if res.watchdog {
			m.mu.Lock()
			m.trouble = append(m.trouble, fmt.Sprintf("watchdog: worker %d made no progress after run %d", k, res.lastRun))
			m.mu.Unlock()
			return false
		}
		// The worker died.  Pinpoint and confirm in a fresh process.
		at := res.lastRun
		if at < 0 {
			m.mu.Lock()
			m.trouble = append(m.trouble, fmt.Sprintf("worker %d died before its first run: %s", k, tail(res.stderr, 800)))
			m.mu.Unlock()
			return false
		}
		pto := at + m.every*m.o.Workers
		if pto > to {
			pto = to
		}
		pin := m.spawnWorkerRange(at, pto, m.o.Workers, 1, skip, false, "")
		if pin.done {
			m.mu.Lock()
			m.trouble = append(m.trouble, fmt.Sprintf("worker %d died near run %d but the death did not reproduce in a fresh process: %s", k, at, tail(res.stderr, 800)))
			m.mu.Unlock()
			return false
		}
		j := pin.lastRun
		class, culprits := classifyDeath(pin.stderr)
		c := m.d.Generate(tape.New(RunSeed(m.o.Seed, m.d.ID(), j)), m.o.Tier)
		m.mu.Lock()
		m.crashes++
		m.viol = append(m.viol, foundViolation{Run: j, Outcome: Outcome{Class: class, Detail: tail(pin.stderr, 3000), Culprits: culprits}, Case: c})
		m.mu.Unlock()
		skip[j] = true
	}
	m.mu.Lock()
	m.trouble = append(m.trouble, fmt.Sprintf("worker %d: too many process deaths, share abandoned", k))
	m.mu.Unlock()
	return false
}

type workerResult struct {
	done     bool
	watchdog bool
	lastRun  int
	viol     []violationLine
	sum      *workerSummary
	stderr   string
}

func (m *master) spawnWorker(from, to, step, every int, skip map[int]bool, writeBitmaps bool, tag string) workerResult {
	return m.spawnWorkerRange(from, to, step, every, skip, writeBitmaps, tag)
}

func (m *master) spawnWorkerRange(from, to, step, every int, skip map[int]bool, writeBitmaps bool, tag string) workerResult {
	var sk []string
	for i := range skip {
		sk = append(sk, strconv.Itoa(i))
	}
	sort.Strings(sk)
	args := []string{"worker", m.d.ID(), "-tier", m.o.Tier, "-seed", strconv.FormatUint(m.o.Seed, 10), "-from", strconv.Itoa(from), "-to", strconv.Itoa(to), "-step", strconv.Itoa(step), "-every", strconv.Itoa(every), "-samples", "2"}
	if len(sk) > 0 {
		args = append(args, "-skip", strings.Join(sk, ","))
	}
	if writeBitmaps {
		args = append(args, "-out", m.o.ScratchDir, "-tag", tag)
	}
	cmd := exec.Command(m.exe, args...)
	cmd.Env = childEnv(m.d.Info().Race)
	var stderr bytes.Buffer
	cmd.Stderr = &limitedWriter{w: &stderr, max: 1 << 20}
	stdout, err := cmd.StdoutPipe()
	res := workerResult{lastRun: -1}
	if err != nil {
		res.stderr = err.Error()
		return res
	}
	if err := cmd.Start(); err != nil {
		res.stderr = err.Error()
		return res
	}
	progress := make(chan struct{}, 1)
	finished := make(chan struct{})
	go func() {
		// wall-clock watchdog: a safety net only, ends in exit 2, never in a VIOLATION
		idle := time.NewTimer(watchdogIdle())
		defer idle.Stop()
		for {
			select {
			case <-finished:
				return
			case <-progress:
				if !idle.Stop() {
					select {
					case <-idle.C:
					default:
					}
				}
				idle.Reset(watchdogIdle())
			case <-idle.C:
				res.watchdog = true
				cmd.Process.Kill()
				return
			}
		}
	}()
	sc := bufio.NewScanner(stdout)
	sc.Buffer(make([]byte, 1<<20), 64<<20)
	for sc.Scan() {
		line := sc.Text()
		switch {
		case strings.HasPrefix(line, "RUN "):
			res.lastRun, _ = strconv.Atoi(line[4:])
			select {
			case progress <- struct{}{}:
			default:
			}
		case strings.HasPrefix(line, "V "):
			var v violationLine
			if json.Unmarshal([]byte(line[2:]), &v) == nil {
				res.viol = append(res.viol, v)
			}
		case strings.HasPrefix(line, "DONE "):
			var s workerSummary
			if json.Unmarshal([]byte(line[5:]), &s) == nil {
				res.sum = &s
				res.done = true
			}
		}
	}
	werr := cmd.Wait()
	close(finished)
	res.stderr = stderr.String()
	if werr != nil {
		res.done = false
	}
	return res
}

func watchdogIdle() time.Duration {
	if s := os.Getenv("VERIF_WATCHDOG_S"); s != "" {
		if n, err := strconv.Atoi(s); err == nil && n > 0 {
			return time.Duration(n) * time.Second
		}
	}
	return 600 * time.Second
}

type limitedWriter struct {
	w   *bytes.Buffer
	max int
}

func (l *limitedWriter) Write(p []byte) (int, error) {
	if l.w.Len() < l.max {
		room := l.max - l.w.Len()
		if room > len(p) {
			room = len(p)
		}
		l.w.Write(p[:room])
	}
	return len(p), nil
}

func childEnv(race bool) []string {
	env := os.Environ()
	if race {
		env = append(env, "GOMAXPROCS=1", "GORACE=halt_on_error=1 exitcode=66 history_size=3")
	}
	return env
}

func tail(s string, n int) string {
	if len(s) <= n {
		return s
	}
	return "…" + s[len(s)-n:]
}

func head(s string, n int) string {
	if len(s) <= n {
		return s
	}
	return s[:n] + "…"
}

// goyangFrames extracts, in order, the goyang functions named in a Go stack
// trace or race report (harness and seam frames excluded).
func goyangFrames(text string) []string {
	var out []string
	for _, line := range strings.Split(text, "\n") {
		l := strings.TrimSpace(line)
		if !strings.HasPrefix(l, "github.com/openconfig/goyang") && !strings.HasPrefix(l, "main.") {
			continue
		}
		if strings.Contains(l, "/zzsim.") || strings.Contains(l, "/zzverif/") {
			continue
		}
		if i := strings.LastIndex(l, "("); i > 0 {
			l = l[:i]
		}
		l = strings.TrimPrefix(l, "github.com/openconfig/goyang/")
		l = strings.TrimPrefix(l, "pkg/")
		out = append(out, l)
	}
	return out
}

// classifyDeath turns the stderr of a dead worker into a violation class and
// culprit frames.
func classifyDeath(stderr string) (string, []string) {
	switch {
	case strings.Contains(stderr, "WARNING: DATA RACE"):
		// first goyang frame of each of the two access stacks
		var culprits []string
		body := stderr[strings.Index(stderr, "WARNING: DATA RACE"):]
		secs := strings.Split(body, "\n\n")
		for i, s := range secs {
			if i >= 2 {
				break
			}
			if fr := goyangFrames(s); len(fr) > 0 {
				culprits = append(culprits, fr[0])
			}
		}
		sort.Strings(culprits)
		return "race", culprits
	case strings.Contains(stderr, "stack overflow") || strings.Contains(stderr, "stack exceeds"):
		fr := goyangFrames(stderr)
		if len(fr) > 0 {
			return "fatal:stack-overflow", fr[:1]
		}
		return "fatal:stack-overflow", nil
	case strings.Contains(stderr, "concurrent map"):
		fr := goyangFrames(stderr)
		if len(fr) > 0 {
			return "fatal:concurrent-map-access", fr[:1]
		}
		return "fatal:concurrent-map-access", nil
	case strings.Contains(stderr, "fatal error:"):
		i := strings.Index(stderr, "fatal error:")
		msg := stderr[i:]
		if j := strings.Index(msg, "\n"); j > 0 {
			msg = msg[:j]
		}
		fr := goyangFrames(stderr)
		if len(fr) > 0 {
			return "fatal:" + strings.TrimSpace(strings.TrimPrefix(msg, "fatal error:")), fr[:1]
		}
		return "fatal:" + strings.TrimSpace(strings.TrimPrefix(msg, "fatal error:")), nil
	case strings.Contains(stderr, "panic:"):
		fr := goyangFrames(stderr)
		if len(fr) > 0 {
			return "fatal:panic", fr[:1]
		}
		return "fatal:panic", nil
	}
	return "fatal:process-death", nil
}

// evalChild runs one case in a fresh child process.
func (m *master) evalChild(c Case) Outcome { return m.evalChildTimeout(c, watchdogIdle()) }

func (m *master) evalChildTimeout(c Case, limit time.Duration) Outcome {
	cmd := exec.Command(m.exe, "runcase", m.d.ID())
	cmd.Env = childEnv(m.d.Info().Race)
	cmd.Stdin = bytes.NewReader(compactJSON(c))
	var stdout, stderr bytes.Buffer
	cmd.Stdout = &stdout
	cmd.Stderr = &limitedWriter{w: &stderr, max: 1 << 20}
	done := make(chan error, 1)
	if err := cmd.Start(); err != nil {
		return Outcome{Class: "harness-panic", Detail: err.Error()}
	}
	go func() { done <- cmd.Wait() }()
	select {
	case <-done:
	case <-time.After(limit):
		cmd.Process.Kill()
		<-done
		return Outcome{Class: "harness-panic", Detail: "watchdog: child did not finish"}
	}
	for _, line := range strings.Split(stdout.String(), "\n") {
		if strings.HasPrefix(line, "O ") {
			var oc Outcome
			if err := json.Unmarshal([]byte(line[2:]), &oc); err == nil {
				return oc
			}
		}
	}
	class, culprits := classifyDeath(stderr.String())
	return Outcome{Class: class, Detail: tail(stderr.String(), 3000), Culprits: culprits}
}

// Eval runs a case the way its class requires: in a child process when the
// run may kill the process or needs the race build, in-process otherwise.
func (m *master) eval(c Case, class string) Outcome {
	if m.d.Info().InProcessShrink && !strings.HasPrefix(class, "fatal") {
		return SafeRun(m.d, c)
	}
	return m.evalChildTimeout(c, 60*time.Second)
}

// shrinkWall bounds the time spent minimising one violation.
const shrinkWall = 60 * time.Second

// shrink minimises a failing case, keeping a candidate only if the same
// violation class persists.
func (m *master) shrink(c Case, oc Outcome) (Case, Outcome, int) {
	class := oc.Class
	budget := 4000
	if m.d.Info().Race || strings.HasPrefix(class, "fatal") || class == "race" {
		budget = 300
	}
	if !m.d.Info().InProcessShrink {
		// children inherit the driver's environment (CLI path, work dir)
	}
	// Confirm first (also yields culprits for crash cases that were only seen as a death).
	first := m.eval(c, class)
	if first.Class != class {
		// Not reproducible in isolation: report the original unshrunk.
		oc.Detail = "(did not reproduce in isolation; reported unshrunk)\n" + oc.Detail
		return c, oc, 0
	}
	best, bestOut := c, first
	steps, evals := 0, 0
	// wall-clock bound on minimisation (it only decides how small the reported
	// case gets, never whether something is reported)
	stop := time.Now().Add(shrinkWall)
	for improved := true; improved && evals < budget && time.Now().Before(stop); {
		improved = false
		for _, cand := range m.d.Shrink(best) {
			evals++
			if evals > budget || !time.Now().Before(stop) {
				break
			}
			o := m.eval(cand, class)
			if o.Class == class && o.Discard == "" {
				best, bestOut = cand, o
				improved = true
				steps++
				break
			}
		}
	}
	return best, bestOut, steps
}

// ReplayFile re-executes a replay file; exit code as for Check.
func ReplayFile(path string, o CheckOpts) int {
	raw, err := os.ReadFile(path)
	if err != nil {
		fmt.Println("machinery trouble:", err)
		return 2
	}
	var rp Replay
	if err := json.Unmarshal(raw, &rp); err != nil {
		fmt.Println("machinery trouble:", err)
		return 2
	}
	d := Lookup(rp.Property)
	if d == nil {
		fmt.Println("machinery trouble: unknown property", rp.Property)
		return 2
	}
	c, err := d.Decode(rp.Case)
	if err != nil {
		fmt.Println("machinery trouble:", err)
		return 2
	}
	m := &master{d: d, o: o, exe: o.Exe}
	if d.Info().Race {
		m.exe = o.RaceExe
	}
	oc := m.evalChild(c)
	if oc.Class == "" {
		fmt.Printf("replay %s: property %s holds on this tree (recorded class was %s)\n", path, rp.Property, rp.Class)
		return 0
	}
	if oc.Class == "harness-panic" {
		fmt.Printf("machinery trouble: %s\n", oc.Detail)
		return 2
	}
	same := "same class as recorded"
	if oc.Class != rp.Class {
		same = "recorded class was " + rp.Class
	}
	fmt.Printf("violation class=%s (%s)\n%s\n", oc.Class, same, indentText(oc.Detail))
	findings, _ := LoadFindings(o.KnownPath)
	for i := range findings {
		if findings[i].Matches(d.ID(), &oc) {
			fmt.Printf("KNOWN-FINDING: property=%s %s [%s]\n", d.ID(), findings[i].What, findings[i].ID)
			return 0
		}
	}
	fmt.Printf("VIOLATION property=%s replay=%s\n", rp.Property, path)
	return 1
}
