package core

import (
	"encoding/json"

	"github.com/openconfig/goyang/pkg/zzsim"
)

// Evidence mirrors /root/.vp/EVIDENCE.schema.json (level "exploration").
type Evidence struct {
	PropertyID  string                 `json:"property_id"`
	Tier        string                 `json:"tier"`
	Seed        int64                  `json:"seed"`
	Level       string                 `json:"level"`
	Coverage    map[string]interface{} `json:"coverage"`
	Assumptions []string               `json:"assumptions"`
	WallS       float64                `json:"wall_s"`
	Violations  int                    `json:"violations"`
}

func buildEvidence(d Driver, o CheckOpts, info Info, total workerSummary, distinct map[string]int, reported, allViol, knownPrinted, crashes int, wall float64, trouble []string) Evidence {
	faults := map[string]int64{}
	probes := map[string]int64{}
	sites := map[string]int64{}
	other := map[string]int64{}
	for k, v := range total.Counters {
		switch {
		case len(k) > 6 && k[:6] == "fault.":
			faults[k[6:]] = v
		case len(k) > 6 && k[:6] == "probe.":
			probes[k[6:]] = v
		case len(k) > 5 && k[:5] == "site.":
			sites[k[5:]] = v
		default:
			other[k] = v
		}
	}
	for _, f := range info.FaultKinds {
		if _, ok := faults[f]; !ok {
			faults[f] = 0
		}
	}
	samples := make([]interface{}, 0, len(total.Samples))
	for _, s := range total.Samples {
		var v interface{}
		if json.Unmarshal(s, &v) == nil {
			samples = append(samples, v)
		}
	}
	if len(samples) == 0 {
		samples = append(samples, "no non-trivial case was generated in this run")
	}
	perHour := 0.0
	if wall > 0 {
		perHour = float64(total.Evaluations) / wall * 3600
	}
	cov := map[string]interface{}{
		"evaluations":                     total.Evaluations,
		"distinct_nontrivial":             distinct["keys"],
		"rule":                            info.Rule + " distinct_nontrivial is the number of set bits in a hashed bitmap of the case keys of non-trivial runs, OR-ed over all worker processes: a measured lower bound on the number of distinct non-trivial cases.",
		"samples":                         samples,
		"nontrivial_evaluations":          total.Nontrivial,
		"discarded_runs":                  total.Discards,
		"simulated_runs_per_hour":         int64(perHour),
		"seeds":                           "one master seed; run i uses splitmix(fnv(seed, property), i); every choice of a run is drawn from that stream",
		"simulated_time_ticks":            total.Ticks,
		"faults_fired":                    faults,
		"probes_hit":                      probes,
		"map_sites_consulted_noncanon":    sites,
		"other_counters":                  other,
		"distinct_schedules_lower_bound":  distinct["scheds"],
		"distinct_end_states_lower_bound": distinct["states"],
		"components_real":                 info.Real,
		"components_stub":                 info.Stub,
		"worker_processes":                o.Workers,
		"process_deaths_attributed":       crashes,
		"known_findings_reproduced":       knownPrinted,
		"violations_all_runs":             allViol,
		"exhaustive":                      false,
	}
	if len(trouble) > 0 {
		cov["machinery_trouble"] = trouble
	}
	// nondeterminism sources of the tree under test that no seam covers
	cov["seam_warnings"] = append([]string{}, zzsim.Warnings...)
	return Evidence{
		PropertyID:  d.ID(),
		Tier:        o.Tier,
		Seed:        int64(o.Seed & 0x7fffffffffffffff),
		Level:       "exploration",
		Coverage:    cov,
		Assumptions: info.Assumptions,
		WallS:       wall,
		Violations:  reported,
	}
}
