package core

import (
	"bufio"
	"encoding/json"
	"fmt"
	"io"
	"os"
	"path/filepath"
	"runtime"
	"runtime/debug"
	"sort"
	"strconv"
	"time"

	"github.com/openconfig/goyang/zzverif/tape"
)

var slowMS = func() int64 {
	n, _ := strconv.ParseInt(os.Getenv("VERIF_SLOW_MS"), 10, 64)
	return n
}()

// Stack returns the current goroutine's stack as a string.
func Stack() string {
	buf := make([]byte, 16<<10)
	n := runtime.Stack(buf, false)
	return string(buf[:n])
}

// bitmap is a fixed-size bit set used to count distinct 64-bit keys across
// worker processes: the master ORs the workers' bitmaps and reports the number
// of set bits, which is a lower bound on the number of distinct keys.
type bitmap struct {
	bits []uint64
	mask uint64
}

func newBitmap(log2 uint) *bitmap {
	return &bitmap{bits: make([]uint64, 1<<(log2-6)), mask: 1<<log2 - 1}
}
func (b *bitmap) add(k uint64) {
	k = tape.MixN(k, 0x5bd1e995) & b.mask
	b.bits[k>>6] |= 1 << (k & 63)
}
func (b *bitmap) or(o *bitmap) {
	for i := range b.bits {
		b.bits[i] |= o.bits[i]
	}
}
func (b *bitmap) count() int {
	n := 0
	for _, w := range b.bits {
		for ; w != 0; w &= w - 1 {
			n++
		}
	}
	return n
}
func (b *bitmap) write(path string) error {
	f, err := os.Create(path)
	if err != nil {
		return err
	}
	defer f.Close()
	w := bufio.NewWriterSize(f, 1<<20)
	var buf [8]byte
	for _, x := range b.bits {
		for i := 0; i < 8; i++ {
			buf[i] = byte(x >> (8 * i))
		}
		w.Write(buf[:])
	}
	return w.Flush()
}
func (b *bitmap) read(path string) error {
	f, err := os.Open(path)
	if err != nil {
		return err
	}
	defer f.Close()
	r := bufio.NewReaderSize(f, 1<<20)
	var buf [8]byte
	for i := range b.bits {
		if _, err := io.ReadFull(r, buf[:]); err != nil {
			return err
		}
		var x uint64
		for j := 0; j < 8; j++ {
			x |= uint64(buf[j]) << (8 * j)
		}
		b.bits[i] = x
	}
	return nil
}

func bitmapLog2(tier string) uint {
	if tier == "thorough" {
		return 26
	}
	return 23
}

// violationLine is what a worker prints for a failing run.
type violationLine struct {
	Run     int             `json:"run"`
	Outcome Outcome         `json:"outcome"`
	Case    json.RawMessage `json:"case"`
}

// workerSummary is what a worker prints when it has finished its share.
type workerSummary struct {
	Evaluations int64             `json:"evaluations"`
	Nontrivial  int64             `json:"nontrivial"`
	Violations  int64             `json:"violations"`
	Discards    map[string]int64  `json:"discards,omitempty"`
	Counters    map[string]int64  `json:"counters,omitempty"`
	Ticks       uint64            `json:"ticks"`
	Samples     []json.RawMessage `json:"samples,omitempty"`
}

// WorkerOpts selects the share of runs a worker process executes: indices
// from, from+step, ... below to.
type WorkerOpts struct {
	Tier     string
	Seed     uint64
	From, To int
	Step     int
	Every    int          // announce "RUN i" before every Every-th run of the share
	OutDir   string       // where the bitmaps go ("" = do not write)
	Tag      string       // file name tag for the bitmaps
	Samples  int          // how many sample cases to print
	Skip     map[int]bool // runs not to execute (confirmed process-killing runs)
	// Trace prints the complete outcome of every run ("T i json"), for the
	// determinism self-test.
	Trace bool
}

// Worker executes a share of runs and reports on stdout.  It is the only
// place where generated cases are executed in bulk.
func Worker(d Driver, o WorkerOpts, stdout io.Writer) {
	debug.SetMaxStack(64 << 20)
	out := bufio.NewWriterSize(stdout, 1<<16)
	defer out.Flush()
	log2 := bitmapLog2(o.Tier)
	keys, states, scheds := newBitmap(log2), newBitmap(log2), newBitmap(log2)
	sum := workerSummary{Discards: map[string]int64{}, Counters: map[string]int64{}}
	if o.Every < 1 {
		o.Every = 1
	}
	n := 0
	for i := o.From; i < o.To; i += o.Step {
		if o.Skip[i] {
			continue
		}
		if n%o.Every == 0 {
			fmt.Fprintf(out, "RUN %d\n", i)
			out.Flush()
		}
		n++
		t := tape.New(RunSeed(o.Seed, d.ID(), i))
		var t0 time.Time
		if slowMS > 0 {
			t0 = time.Now() // diagnostics only; never influences a run
		}
		c := d.Generate(t, o.Tier)
		oc := SafeRun(d, c)
		if slowMS > 0 {
			if ms := time.Since(t0).Milliseconds(); ms >= slowMS {
				fmt.Fprintf(os.Stderr, "SLOW run %d: %d ms (ticks %d)\n", i, ms, oc.Ticks)
			}
		}
		if o.Trace {
			b, _ := json.Marshal(oc)
			fmt.Fprintf(out, "T %d %x %s\n", i, tape.Hash64(compactJSON(c)), b)
		}
		if oc.Discard != "" {
			sum.Discards[oc.Discard]++
			for k, v := range oc.Counters {
				sum.Counters[k] += v
			}
			continue
		}
		sum.Evaluations++
		sum.Ticks += oc.Ticks
		for k, v := range oc.Counters {
			sum.Counters[k] += v
		}
		if oc.Nontrivial {
			sum.Nontrivial++
			keys.add(oc.Key)
			if len(sum.Samples) < o.Samples {
				sum.Samples = append(sum.Samples, json.RawMessage(compactJSON(c)))
			}
		}
		if oc.State != 0 {
			states.add(oc.State)
		}
		if oc.Sched != 0 {
			scheds.add(oc.Sched)
		}
		if oc.Class != "" {
			sum.Violations++
			if sum.Violations <= 20 {
				b, _ := json.Marshal(violationLine{Run: i, Outcome: oc, Case: json.RawMessage(compactJSON(c))})
				fmt.Fprintf(out, "V %s\n", b)
				out.Flush()
			}
		}
	}
	if o.OutDir != "" {
		// an earlier segment of the same slot may have left bitmaps: accumulate
		for _, x := range []struct {
			b    *bitmap
			kind string
		}{{keys, "keys"}, {states, "states"}, {scheds, "scheds"}} {
			old := newBitmap(log2)
			if old.read(filepath.Join(o.OutDir, o.Tag+"."+x.kind)) == nil {
				x.b.or(old)
			}
		}
		keys.write(filepath.Join(o.OutDir, o.Tag+".keys"))
		states.write(filepath.Join(o.OutDir, o.Tag+".states"))
		scheds.write(filepath.Join(o.OutDir, o.Tag+".scheds"))
	}
	b, _ := json.Marshal(sum)
	fmt.Fprintf(out, "DONE %s\n", b)
}

func compactJSON(c Case) []byte {
	b, err := json.Marshal(c)
	if err != nil {
		return []byte("null")
	}
	return b
}

// RunCase executes one explicit case read from r and prints its outcome; used
// for crash confirmation, minimisation of process-killing cases and replay.
func RunCase(d Driver, r io.Reader, stdout io.Writer) error {
	debug.SetMaxStack(64 << 20)
	raw, err := io.ReadAll(r)
	if err != nil {
		return err
	}
	c, err := d.Decode(raw)
	if err != nil {
		return err
	}
	oc := SafeRun(d, c)
	b, _ := json.Marshal(oc)
	fmt.Fprintf(stdout, "O %s\n", b)
	return nil
}

func sortedKeys(m map[string]int64) []string {
	var ks []string
	for k := range m {
		ks = append(ks, k)
	}
	sort.Strings(ks)
	return ks
}
