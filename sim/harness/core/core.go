// Package core is the property-independent part of the simulator: the driver
// interface, the worker loop, the master that fans runs out to worker
// processes, crash attribution, minimisation, replay files, known findings and
// the evidence writer.
package core

import (
	"encoding/json"
	"fmt"
	"sort"
	"strings"

	"github.com/openconfig/goyang/zzverif/tape"
)

// Case is a pointer to a JSON-marshalable struct that explicitly describes one
// simulated run: inputs, operation history, faults, schedule.  A replay file
// stores the Case, not a seed, so it stays valid when generators change.
type Case interface{}

// Outcome is what one simulated run reports.
type Outcome struct {
	// Class is the violation class, or "" if the property held on this run.
	// Minimisation keeps a candidate only if it fails with the same class.
	Class  string `json:"class,omitempty"`
	Detail string `json:"detail,omitempty"`
	// Culprits names the seam sites / input features / panic site that known
	// findings are matched against.
	Culprits []string `json:"culprits,omitempty"`
	// Discard is non-empty when the run does not count (e.g. another
	// property's oracle fired, or the generated input fell outside the
	// property's stated domain).
	Discard    string           `json:"discard,omitempty"`
	Nontrivial bool             `json:"nontrivial,omitempty"`
	Key        uint64           `json:"key,omitempty"`   // distinct-case key
	State      uint64           `json:"state,omitempty"` // end-state key
	Sched      uint64           `json:"sched,omitempty"` // schedule key
	Counters   map[string]int64 `json:"counters,omitempty"`
	Ticks      uint64           `json:"ticks,omitempty"`
}

// Count adds n to a probe / fault counter.
func (o *Outcome) Count(name string, n int64) {
	if o.Counters == nil {
		o.Counters = map[string]int64{}
	}
	o.Counters[name] += n
}

// Fail records a violation (the first one wins).
func (o *Outcome) Fail(class, format string, a ...interface{}) {
	if o.Class != "" {
		return
	}
	o.Class = class
	o.Detail = fmt.Sprintf(format, a...)
	if len(o.Detail) > 4000 {
		o.Detail = o.Detail[:4000] + "…"
	}
}

// Tier describes the amount of work of one tier.
type Tier struct {
	Runs          int // number of simulated runs
	AnnounceEvery int // "RUN i" granularity (1 for drivers whose runs can kill the process)
}

// Driver is one property's workload + oracle.
type Driver interface {
	ID() string
	Tier(tier string) Tier
	// Generate draws one case from the tape.
	Generate(t *tape.Tape, tier string) Case
	// Decode parses a case from a replay file.
	Decode(b []byte) (Case, error)
	// Run executes the case against the real (instrumented) code.
	Run(c Case) Outcome
	// Shrink proposes simpler variants of a failing case, most aggressive first.
	Shrink(c Case) []Case
	// Info describes the check for the evidence file.
	Info() Info
}

// Info is the static, descriptive part of an evidence file.
type Info struct {
	Rule        string
	Assumptions []string
	Real        []string // components that ran real code
	Stub        []string // components that were simulated
	FaultKinds  []string // fault kinds this driver can inject (counters named fault.<kind>)
	// Race is true for drivers that must run in a -race build, one run per process slot.
	Race bool
	// InProcessShrink lets the master evaluate shrink candidates in its own
	// process.  Only for drivers whose runs cannot take the process down or
	// hang it (C20); everything else is evaluated in child processes, because a
	// tree under test may be damaged in ways that make even the harness's own
	// walks (or goyang's accessors called by them) overflow the stack.
	InProcessShrink bool
}

var drivers = map[string]Driver{}

// Register makes a driver known to the runner.
func Register(d Driver) { drivers[d.ID()] = d }

// Lookup finds a driver.
func Lookup(id string) Driver { return drivers[id] }

// IDs lists the registered drivers.
func IDs() []string {
	var ids []string
	for k := range drivers {
		ids = append(ids, k)
	}
	sort.Strings(ids)
	return ids
}

// RunSeed derives the seed of run i of property id from the master seed.
func RunSeed(seed uint64, id string, i int) uint64 {
	return tape.MixN(tape.Mix(seed, id), uint64(i))
}

// SafeRun runs a case and converts a panic of the harness or of goyang that
// the driver did not classify itself into a "harness-panic" outcome, so that a
// bug in the machinery is never reported as a property violation.
func SafeRun(d Driver, c Case) (o Outcome) {
	defer func() {
		if r := recover(); r != nil {
			o = Outcome{Class: "harness-panic", Detail: fmt.Sprintf("%v\n%s", r, Stack())}
		}
	}()
	return d.Run(c)
}

// MarshalCase renders a case as indented JSON.
func MarshalCase(c Case) []byte {
	b, err := json.MarshalIndent(c, "", " ")
	if err != nil {
		return []byte(fmt.Sprintf("%q", err.Error()))
	}
	return b
}

// Replay is the content of a replay file.
type Replay struct {
	Property string          `json:"property"`
	Seed     uint64          `json:"seed"`
	Run      int             `json:"run"`
	Class    string          `json:"class"`
	Detail   string          `json:"detail"`
	Culprits []string        `json:"culprits,omitempty"`
	Shrunk   int             `json:"shrink_steps"`
	// Confirmed says in how many of three fresh processes the minimised case
	// failed the same way before it was written out.  Fewer than three means
	// the tree under test behaves nondeterministically beyond what the
	// simulation controls (e.g. an order among map keys that are equal in
	// everything but their address).
	Confirmed string          `json:"confirmed,omitempty"`
	Case      json.RawMessage `json:"case"`
}

// Finding is one entry of /verif/known_findings.json.
type Finding struct {
	Property string `json:"property"`
	ID       string `json:"id"`
	Status   string `json:"status"` // "open" or "fixed"
	Commit   string `json:"commit,omitempty"`
	What     string `json:"what"`
	// Matcher (open findings only): a violation is attributed to this finding
	// when its class has ClassPrefix and, if Culprit is set, Culprit is among
	// the outcome's culprits.
	ClassPrefix string `json:"class_prefix,omitempty"`
	Culprit     string `json:"culprit,omitempty"`
	Replay      string `json:"replay,omitempty"` // committed minimal case under /verif/known/
}

// Matches reports whether outcome o is an instance of open finding f.
func (f *Finding) Matches(id string, o *Outcome) bool {
	if f.Status != "open" || f.Property != id {
		return false
	}
	if f.ClassPrefix == "" || !strings.HasPrefix(o.Class, f.ClassPrefix) {
		return false
	}
	if f.Culprit == "" {
		return true
	}
	for _, c := range o.Culprits {
		if c == f.Culprit {
			return true
		}
	}
	return false
}
