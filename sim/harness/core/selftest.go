package core

import (
	"bytes"
	"fmt"
	"os"
	"os/exec"
	"sort"
	"strconv"
	"strings"
	"sync"
)

// SelfTest is the determinism self-test: for every driver a sample of runs is
// executed in several separate processes at GOMAXPROCS 1, 4 and 16 (race
// drivers: always 1, but several processes) and the complete outcomes (case
// hash, violation class, end-state hash, schedule hash = every consulted map
// order / scheduler pick, simulated ticks, every fault and probe counter) are
// compared.  Any divergence is machinery trouble (exit 2).
func SelfTest(exe, raceExe, tier string, seed uint64, scratch, only string) int {
	n := 32
	if tier == "thorough" {
		n = 160
	}
	ids := IDs()
	bad := 0
	type job struct {
		id    string
		procs string
		rep   int
	}
	for _, id := range ids {
		if only != "" && only != id {
			continue
		}
		d := Lookup(id)
		bin := exe
		procsList := []string{"1", "4", "16"}
		if d.Info().Race {
			if raceExe == "" {
				fmt.Printf("selftest %s: skipped (no race build)\n", id)
				continue
			}
			bin = raceExe
			procsList = []string{"1", "1", "1"}
		}
		var mu sync.Mutex
		outs := map[string]string{}
		var wg sync.WaitGroup
		for pi, procs := range procsList {
			for rep := 0; rep < 2; rep++ {
				wg.Add(1)
				go func(pi int, procs string, rep int) {
					defer wg.Done()
					cmd := exec.Command(bin, "worker", id, "-tier", tier, "-seed", strconv.FormatUint(seed, 10), "-from", "0", "-to", strconv.Itoa(n), "-step", "1", "-every", "1", "-trace")
					cmd.Env = append(os.Environ(), "GOMAXPROCS="+procs)
					if d.Info().Race {
						cmd.Env = append(cmd.Env, "GORACE=halt_on_error=1 exitcode=66")
					}
					var stdout, stderr bytes.Buffer
					cmd.Stdout, cmd.Stderr = &stdout, &stderr
					err := cmd.Run()
					var lines []string
					for _, l := range strings.Split(stdout.String(), "\n") {
						if strings.HasPrefix(l, "T ") {
							lines = append(lines, l)
						}
					}
					key := fmt.Sprintf("%d-procs%s-rep%d", pi, procs, rep)
					mu.Lock()
					if err != nil {
						outs[key] = "PROCESS ERROR: " + err.Error() + "\n" + tail(stderr.String(), 500)
					} else {
						outs[key] = strings.Join(lines, "\n")
					}
					mu.Unlock()
				}(pi, procs, rep)
			}
		}
		wg.Wait()
		var keys []string
		for k := range outs {
			keys = append(keys, k)
		}
		sort.Strings(keys)
		ref := outs[keys[0]]
		ok := true
		for _, k := range keys[1:] {
			if outs[k] != ref && ok {
				ok = false
				a, b := strings.Split(ref, "\n"), strings.Split(outs[k], "\n")
				for i := 0; i < len(a) || i < len(b); i++ {
					var x, y string
					if i < len(a) {
						x = a[i]
					}
					if i < len(b) {
						y = b[i]
					}
					if x != y {
						fmt.Printf("selftest %s: DIVERGENCE between %s and %s at trace line %d:\n  %s\n  %s\n", id, keys[0], k, i, head(x, 700), head(y, 700))
						break
					}
				}
			}
		}
		cnt := len(strings.Split(ref, "\n"))
		if strings.HasPrefix(ref, "PROCESS ERROR") || ref == "" {
			ok = false
			fmt.Printf("selftest %s: %s\n", id, head(ref, 600))
		}
		if ok {
			fmt.Printf("selftest %s: %d runs x %d processes (GOMAXPROCS %s) identical\n", id, cnt, len(keys), strings.Join(procsList, ","))
		} else {
			bad++
		}
	}
	if bad > 0 {
		fmt.Printf("machinery trouble: %d driver(s) are not deterministic\n", bad)
		return 2
	}
	return 0
}
