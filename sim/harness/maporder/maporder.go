// Package maporder is the seeded oracle behind every rewritten map range
// (seam R1): it puts the keys into an address-free canonical order and then
// applies the site's mode.  Every order it produces is one the Go
// specification allows for a native range.
package maporder

import (
	"fmt"
	"os"
	"reflect"
	"sort"
	"strconv"
	"strings"

	"github.com/openconfig/goyang/pkg/yang"
	"github.com/openconfig/goyang/pkg/zzsim"
	"github.com/openconfig/goyang/zzverif/tape"
)

// Modes.
const (
	Sorted   = "sorted"
	Reversed = "reversed"
	Rotate   = "rotate"
	Shuffle  = "shuffle"
)

// Schedule is the map-order part (μ) of a simulated run: a mode per site plus
// one integer.
type Schedule struct {
	Default string            `json:"default,omitempty"` // mode of unlisted sites ("" = sorted)
	Sites   map[string]string `json:"sites,omitempty"`
	Seed    uint64            `json:"seed,omitempty"`
}

// Canonical is the schedule in which every site iterates in sorted order.
func Canonical() *Schedule { return &Schedule{Default: Sorted} }

// Clone copies a schedule.
func (s *Schedule) Clone() *Schedule {
	n := &Schedule{Default: s.Default, Seed: s.Seed}
	if s.Sites != nil {
		n.Sites = map[string]string{}
		for k, v := range s.Sites {
			n.Sites[k] = v
		}
	}
	return n
}

// IsCanonical reports whether every site is sorted.
func (s *Schedule) IsCanonical() bool {
	if s.Default != "" && s.Default != Sorted {
		return false
	}
	for _, m := range s.Sites {
		if m != Sorted {
			return false
		}
	}
	return true
}

func (s *Schedule) mode(site string) string {
	if m, ok := s.Sites[site]; ok {
		return m
	}
	if s.Default == "" {
		return Sorted
	}
	return s.Default
}

// Recorder measures what a schedule actually decided.
type Recorder struct {
	// NonCanon counts, per site, consultations with >= 2 keys in a non-sorted mode.
	NonCanon map[string]int64
	// Consulted counts, per site, consultations with >= 2 keys.
	Consulted map[string]int64
	// Hash accumulates every decision (site, permutation).
	Hash     uint64
	Unstable int64
}

// NewRecorder returns an empty recorder.
func NewRecorder() *Recorder {
	return &Recorder{NonCanon: map[string]int64{}, Consulted: map[string]int64{}}
}

// MapSites lists the map-range sites of the instrumented tree.
func MapSites() []string {
	var out []string
	for _, s := range zzsim.Sites {
		if s.Kind == "maprange" {
			out = append(out, s.ID)
		}
	}
	sort.Strings(out)
	return out
}

// Random draws a schedule (swarm style: often every site, sometimes a subset, sometimes one).
func Random(t *tape.Tape) *Schedule {
	s := &Schedule{Default: Sorted, Sites: map[string]string{}, Seed: t.Uint64()}
	sites := MapSites()
	modes := []string{Reversed, Shuffle, Rotate}
	switch t.Weighted(5, 3, 2, 1) {
	case 0: // every site, one mode each
		for _, id := range sites {
			s.Sites[id] = modes[t.Weighted(3, 4, 1)]
		}
	case 1: // all reversed
		s.Default = Reversed
	case 2: // random subset
		for _, id := range sites {
			if t.Chance(1, 3) {
				s.Sites[id] = modes[t.Weighted(3, 4, 1)]
			}
		}
	case 3: // a single site
		if len(sites) > 0 {
			s.Sites[sites[t.Intn(len(sites))]] = modes[t.Weighted(3, 4, 1)]
		}
	}
	return s
}

// Pinned sites are forced to sorted order in random schedules because an open
// known finding is matched by that culprit site (DESIGN.md §5).
var Pinned = map[string]bool{}

var unstable int64

var debugSched = os.Getenv("VERIF_DEBUG_SCHED") != ""

func keyString(k any) string {
	switch x := k.(type) {
	case string:
		return "s:" + x
	case yang.Node:
		if x == nil || reflect.ValueOf(x).IsNil() {
			return "n:<nil>"
		}
		loc := "?"
		if st := x.Statement(); st != nil {
			loc = locKey(st.Location())
		}
		return "n:" + loc + ":" + x.Kind() + ":" + x.NName()
	case *yang.YangType:
		if x == nil {
			return "t:<nil>"
		}
		base := ""
		if x.Base != nil && x.Base.Statement() != nil {
			base = locKey(x.Base.Statement().Location())
		}
		return fmt.Sprintf("t:%s:%s:%s:%s:%v:%d:%s:%s:%q:%d", x.Name, x.Kind, base, x.Units, x.HasDefault, x.FractionDigits, x.Range, x.Length, x.Pattern, len(x.Type))
	case error:
		return "e:" + x.Error()
	}
	v := reflect.ValueOf(k)
	switch v.Kind() {
	case reflect.Int, reflect.Int8, reflect.Int16, reflect.Int32, reflect.Int64:
		return fmt.Sprintf("i:%020d", uint64(v.Int())^(1<<63))
	case reflect.Uint, reflect.Uint8, reflect.Uint16, reflect.Uint32, reflect.Uint64:
		return fmt.Sprintf("u:%020d", v.Uint())
	case reflect.Bool:
		return fmt.Sprintf("b:%v", v.Bool())
	case reflect.Ptr:
		unstable++
		if v.IsNil() {
			return "p:<nil>"
		}
		return fmt.Sprintf("p:%T:%+v", k, v.Elem().Interface())
	}
	unstable++
	return fmt.Sprintf("x:%T:%+v", k, k)
}

// locKey makes file:line:col sort numerically.
func locKey(loc string) string {
	parts := strings.Split(loc, ":")
	if len(parts) < 3 {
		return loc
	}
	n := len(parts)
	return fmt.Sprintf("%s:%08s:%08s", strings.Join(parts[:n-2], ":"), parts[n-2], parts[n-1])
}

// Install makes s the map-order oracle; rec may be nil.
//
//go:norace
func Install(s *Schedule, rec *Recorder) {
	visits := map[string]uint64{}
	zzsim.MapOrder = func(site string, keys []any) []int {
		n := len(keys)
		perm := make([]int, n)
		for i := range perm {
			perm[i] = i
		}
		if n < 2 {
			return perm
		}
		ks := make([]string, n)
		for i, k := range keys {
			ks[i] = keyString(k)
		}
		sort.SliceStable(perm, func(a, b int) bool { return ks[perm[a]] < ks[perm[b]] })
		mode := s.mode(site)
		if Pinned[site] {
			mode = Sorted
		}
		visit := visits[site]
		visits[site]++
		if rec != nil {
			rec.Consulted[site]++
			if mode != Sorted {
				rec.NonCanon[site]++
			}
		}
		switch mode {
		case Reversed:
			for i, j := 0, n-1; i < j; i, j = i+1, j-1 {
				perm[i], perm[j] = perm[j], perm[i]
			}
		case Rotate:
			k := int(tape.MixN(tape.Mix(s.Seed, site), visit) % uint64(n))
			perm = append(perm[k:], perm[:k]...)
		case Shuffle:
			r := tape.New(tape.MixN(tape.Mix(s.Seed, site), visit))
			for i := n - 1; i > 0; i-- {
				j := r.Intn(i + 1)
				perm[i], perm[j] = perm[j], perm[i]
			}
		}
		if rec != nil {
			// hash the resulting key order (not the indices, which refer to the
			// native order the keys happened to be collected in)
			h := tape.Mix(rec.Hash, site)
			for _, p := range perm {
				h = tape.Mix(h, ks[p])
			}
			rec.Hash = h
			if debugSched {
				var out []string
				for _, p := range perm {
					out = append(out, ks[p])
				}
				fmt.Fprintf(os.Stderr, "SCHED %s %q\n", site, out)
			}
		}
		return perm
	}
}

// Uninstall restores native map order.
func Uninstall() { zzsim.MapOrder = nil }

// RandomStable draws a schedule whose decisions do not depend on how often a
// site has been visited before (sorted / reversed only), so that two
// executions with different histories can run under "the same" map order.
func RandomStable(t *tape.Tape) *Schedule {
	s := Random(t)
	if s.Default != Sorted && s.Default != "" {
		s.Default = Reversed
	}
	for k, m := range s.Sites {
		if m != Sorted {
			s.Sites[k] = Reversed
		}
	}
	return s
}

// InstallSortedStateless makes every rewritten range iterate in canonical
// sorted order using a hook without any mutable state, so that it can be
// called from several tasks at once (C19) without being a data race itself.
func InstallSortedStateless() {
	zzsim.MapOrder = func(site string, keys []any) []int {
		n := len(keys)
		perm := make([]int, n)
		for i := range perm {
			perm[i] = i
		}
		if n < 2 {
			return perm
		}
		ks := make([]string, n)
		for i, k := range keys {
			ks[i] = keyStringPure(k)
		}
		sort.SliceStable(perm, func(a, b int) bool { return ks[perm[a]] < ks[perm[b]] })
		return perm
	}
}

// keyStringPure is keyString without shared state and without fmt (whose
// sync.Pool would add happens-before noise between tasks).
func keyStringPure(k any) string {
	switch x := k.(type) {
	case string:
		return "s:" + x
	case yang.Node:
		if x == nil || reflect.ValueOf(x).IsNil() {
			return "n:<nil>"
		}
		loc := "?"
		if st := x.Statement(); st != nil {
			loc = locKeyPure(st.Location())
		}
		return "n:" + loc + ":" + x.Kind() + ":" + x.NName()
	case *yang.YangType:
		if x == nil {
			return "t:<nil>"
		}
		return "t:" + x.Name
	}
	v := reflect.ValueOf(k)
	switch v.Kind() {
	case reflect.Int, reflect.Int8, reflect.Int16, reflect.Int32, reflect.Int64:
		return "i:" + pad(uint64(v.Int())^(1<<63))
	case reflect.Uint, reflect.Uint8, reflect.Uint16, reflect.Uint32, reflect.Uint64:
		return "u:" + pad(v.Uint())
	}
	return "x"
}

func locKeyPure(loc string) string {
	parts := strings.Split(loc, ":")
	if len(parts) < 3 {
		return loc
	}
	n := len(parts)
	a, b := parts[n-2], parts[n-1]
	for len(a) < 8 {
		a = "0" + a
	}
	for len(b) < 8 {
		b = "0" + b
	}
	return strings.Join(parts[:n-2], ":") + ":" + a + ":" + b
}

func pad(n uint64) string {
	s := strconv.FormatUint(n, 10)
	for len(s) < 20 {
		s = "0" + s
	}
	return s
}
