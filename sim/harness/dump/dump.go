// Package dump turns goyang's observable results into address-free canonical
// text (full profile, for comparing goyang with goyang) and into model.XNode
// trees (structural profile, for comparing goyang with the reference model),
// and checks the C04 tree invariants.
package dump

import (
	"fmt"
	"sort"
	"strings"

	"github.com/openconfig/goyang/pkg/yang"
	"github.com/openconfig/goyang/zzverif/model"
)

func tri(t yang.TriState) string {
	switch t {
	case yang.TSTrue:
		return "true"
	case yang.TSFalse:
		return "false"
	}
	return ""
}

// OwnerName returns the name of the module that owns n's namespace.
func OwnerName(n yang.Node) string {
	if n == nil {
		return "?"
	}
	defer func() { recover() }()
	m := yang.RootNode(n)
	if m == nil {
		return "?"
	}
	if m.BelongsTo != nil {
		return m.BelongsTo.Name
	}
	return m.Name
}

// XKind maps an Entry to the reference model's node kind.
func XKind(e *yang.Entry) string {
	switch e.Kind {
	case yang.LeafEntry:
		if e.ListAttr != nil {
			return model.KLeafList
		}
		return model.KLeaf
	case yang.AnyDataEntry:
		return model.KAnyData
	case yang.AnyXMLEntry:
		return model.KAnyXML
	case yang.CaseEntry:
		return model.KCase
	case yang.ChoiceEntry:
		return model.KChoice
	case yang.InputEntry:
		return model.KInput
	case yang.OutputEntry:
		return model.KOutput
	case yang.NotificationEntry:
		return model.KNotification
	case yang.DirectoryEntry:
		if e.Node != nil {
			switch k := e.Node.Kind(); k {
			case "rpc", "action", "module", "submodule", "grouping", "augment":
				return k
			}
		}
		if e.ListAttr != nil {
			return model.KList
		}
		return model.KContainer
	}
	return e.Kind.String()
}

// XTypeOf converts a resolved YangType.
func XTypeOf(t *yang.YangType) *model.XType {
	if t == nil {
		return nil
	}
	x := &model.XType{Kind: t.Kind.String(), Name: t.Name, Default: t.Default, HasDefault: t.HasDefault, Units: t.Units, Path: t.Path, Frac: t.FractionDigits, Patterns: len(t.Pattern), Posix: len(t.POSIXPattern)}
	if t.IdentityBase != nil {
		x.Base = OwnerName(t.IdentityBase) + ":" + t.IdentityBase.Name
	}
	if t.Enum != nil {
		x.Enums = append(x.Enums, t.Enum.Names()...)
		sort.Strings(x.Enums)
	}
	if t.Bit != nil {
		x.Bits = append(x.Bits, t.Bit.Names()...)
		sort.Strings(x.Bits)
	}
	for _, u := range t.Type {
		x.Union = append(x.Union, XTypeOf(u))
	}
	return x
}

// NodeBudget bounds how many nodes one dump or extraction visits.  A tree
// under test may be damaged (a child map shared between nodes makes it a DAG or
// a cycle whose unfolding is exponential); the harness must still return.
const NodeBudget = 60000

// ToX extracts the structural view of an entry tree.
func ToX(e *yang.Entry, parent *model.XNode) *model.XNode {
	budget := NodeBudget
	return toX(e, parent, &budget, 0)
}

func toX(e *yang.Entry, parent *model.XNode, budget *int, depth int) *model.XNode {
	*budget--
	if *budget < 0 || depth > 250 {
		return &model.XNode{Name: e.Name, Kind: "TRUNCATED(tree too large or too deep)", Parent: parent}
	}
	x := &model.XNode{Name: e.Name, Kind: XKind(e), Config: tri(e.Config), Mandatory: tri(e.Mandatory), Units: e.Units, Desc: e.Description, Key: e.Key, Parent: parent}
	x.Default = append([]string(nil), e.Default...)
	for _, st := range e.Exts {
		if st != nil {
			x.Exts = append(x.Exts, st.Argument)
		}
	}
	if ns := e.Namespace(); ns != nil {
		x.NSMod = ns.Name
	}
	ro := e.ReadOnly()
	x.ObsRO = &ro
	if im, err := e.InstantiatingModule(); err == nil {
		x.ObsInst = im
	} else {
		x.ObsInst = "ERROR(" + err.Error() + ")"
	}
	if e.ListAttr != nil {
		x.HasList = true
		x.Min, x.Max = e.ListAttr.MinElements, e.ListAttr.MaxElements
		x.ByUser = e.ListAttr.OrderedByUser
	}
	if e.Kind == yang.CaseEntry && e.Node != nil && e.Node.Statement() != nil && e.Node.Statement().Keyword != "case" {
		x.Implicit = true
	}
	x.Type = XTypeOf(e.Type)
	if e.Dir != nil {
		x.Kids = map[string]*model.XNode{}
		// sorted: the walk calls library functions whose seams are logged
		keys := make([]string, 0, len(e.Dir))
		for k := range e.Dir {
			keys = append(keys, k)
		}
		sort.Strings(keys)
		for _, k := range keys {
			c := e.Dir[k]
			if c == nil {
				continue
			}
			cx := toX(c, x, budget, depth+1)
			if cx.Name != k {
				cx.Name = k + "(filed-as)/" + cx.Name
			}
			x.Kids[k] = cx
		}
	}
	if e.RPC != nil {
		x.HasRPC = true
		if e.RPC.Input != nil {
			x.Input = toX(e.RPC.Input, x, budget, depth+1)
		}
		if e.RPC.Output != nil {
			x.Output = toX(e.RPC.Output, x, budget, depth+1)
		}
	}
	return x
}

// DistinctModules returns the distinct modules of a map (several keys may
// denote one module), sorted by full name.
func DistinctModules(m map[string]*yang.Module) []*yang.Module {
	seen := map[*yang.Module]bool{}
	var out []*yang.Module
	for _, k := range sortedModKeys(m) {
		mod := m[k]
		if mod != nil && !seen[mod] {
			seen[mod] = true
			out = append(out, mod)
		}
	}
	sort.SliceStable(out, func(i, j int) bool { return out[i].FullName() < out[j].FullName() })
	return out
}

func sortedModKeys(m map[string]*yang.Module) []string {
	var ks []string
	for k := range m {
		ks = append(ks, k)
	}
	sort.Strings(ks)
	return ks
}

func stmtString(s *yang.Statement) string {
	if s == nil {
		return "<nil>"
	}
	if s.HasArgument {
		return s.Keyword + " " + fmt.Sprintf("%q", s.Argument)
	}
	return s.Keyword
}

func fullType(sb *strings.Builder, t *yang.YangType, depth int) {
	if t == nil {
		sb.WriteString("-")
		return
	}
	if depth > 6 {
		sb.WriteString("…")
		return
	}
	fmt.Fprintf(sb, "{name=%s kind=%s", t.Name, t.Kind)
	if t.Units != "" {
		fmt.Fprintf(sb, " units=%q", t.Units)
	}
	if t.HasDefault || t.Default != "" {
		fmt.Fprintf(sb, " default=%q has=%v", t.Default, t.HasDefault)
	}
	if t.FractionDigits != 0 {
		fmt.Fprintf(sb, " frac=%d", t.FractionDigits)
	}
	if len(t.Range) > 0 {
		fmt.Fprintf(sb, " range=%s", t.Range)
	}
	if len(t.Length) > 0 {
		fmt.Fprintf(sb, " length=%s", t.Length)
	}
	if len(t.Pattern) > 0 {
		fmt.Fprintf(sb, " pattern=%q", t.Pattern)
	}
	if len(t.POSIXPattern) > 0 {
		fmt.Fprintf(sb, " posix=%q", t.POSIXPattern)
	}
	if t.Path != "" {
		fmt.Fprintf(sb, " path=%q", t.Path)
	}
	if t.OptionalInstance {
		sb.WriteString(" optional-instance")
	}
	if t.Enum != nil {
		nm := t.Enum.NameMap()
		var names []string
		for n := range nm {
			names = append(names, n)
		}
		sort.Strings(names)
		sb.WriteString(" enum[")
		for _, n := range names {
			fmt.Fprintf(sb, "%s=%d ", n, nm[n])
		}
		sb.WriteString("]")
	}
	if t.Bit != nil {
		nm := t.Bit.NameMap()
		var names []string
		for n := range nm {
			names = append(names, n)
		}
		sort.Strings(names)
		sb.WriteString(" bit[")
		for _, n := range names {
			fmt.Fprintf(sb, "%s=%d ", n, nm[n])
		}
		sb.WriteString("]")
	}
	if t.IdentityBase != nil {
		fmt.Fprintf(sb, " base=%s:%s values=[", OwnerName(t.IdentityBase), t.IdentityBase.Name)
		for _, v := range t.IdentityBase.Values {
			fmt.Fprintf(sb, "%s:%s ", OwnerName(v), v.Name)
		}
		sb.WriteString("]")
	}
	if t.Root != nil && t.Root != t {
		fmt.Fprintf(sb, " root=%s", t.Root.Name)
	}
	if len(t.Type) > 0 {
		sb.WriteString(" union[")
		for _, u := range t.Type {
			fullType(sb, u, depth+1)
			sb.WriteString(" ")
		}
		sb.WriteString("]")
	}
	sb.WriteString("}")
}

func fullEntry(sb *strings.Builder, e *yang.Entry, path string, depth int, fullBudget *int) {
	*fullBudget--
	if depth > 200 || *fullBudget < 0 {
		if *fullBudget > -5 {
			fmt.Fprintf(sb, "%s: (tree too large or too deep: dump truncated)\n", path)
		}
		return
	}
	if e == nil {
		fmt.Fprintf(sb, "%s: <nil entry>\n", path)
		return
	}
	fmt.Fprintf(sb, "%s: kind=%s xkind=%s", path, e.Kind, XKind(e))
	if c := tri(e.Config); c != "" {
		fmt.Fprintf(sb, " config=%s", c)
	}
	if c := tri(e.Mandatory); c != "" {
		fmt.Fprintf(sb, " mandatory=%s", c)
	}
	if len(e.Default) > 0 {
		fmt.Fprintf(sb, " default=%q", e.Default)
	}
	if e.Units != "" {
		fmt.Fprintf(sb, " units=%q", e.Units)
	}
	if e.Description != "" {
		fmt.Fprintf(sb, " desc=%q", e.Description)
	}
	if e.Key != "" {
		fmt.Fprintf(sb, " key=%q", e.Key)
	}
	if e.ListAttr != nil {
		fmt.Fprintf(sb, " list[min=%d max=%d user=%v]", e.ListAttr.MinElements, e.ListAttr.MaxElements, e.ListAttr.OrderedByUser)
	}
	if e.Prefix != nil {
		fmt.Fprintf(sb, " prefix=%s", e.Prefix.Name)
	}
	if ns := e.Namespace(); ns != nil {
		fmt.Fprintf(sb, " ns=%s", ns.Name)
	}
	if im, err := e.InstantiatingModule(); err == nil {
		fmt.Fprintf(sb, " inst=%s", im)
	} else {
		fmt.Fprintf(sb, " inst-error=%q", err.Error())
	}
	if e.ReadOnly() {
		sb.WriteString(" RO")
	}
	if dv := e.DefaultValues(); len(dv) > 0 {
		fmt.Fprintf(sb, " defaultvalues=%q", dv)
	}
	if e.Type != nil {
		sb.WriteString(" type=")
		fullType(sb, e.Type, 0)
	}
	if len(e.Exts) > 0 {
		sb.WriteString(" exts=[")
		for _, x := range e.Exts {
			sb.WriteString(stmtString(x) + "; ")
		}
		sb.WriteString("]")
	}
	if len(e.Extra) > 0 {
		var ks []string
		for k := range e.Extra {
			ks = append(ks, k)
		}
		sort.Strings(ks)
		sb.WriteString(" extra={")
		for _, k := range ks {
			fmt.Fprintf(sb, "%s:[", k)
			for _, v := range e.Extra[k] {
				switch x := v.(type) {
				case *yang.Value:
					if x != nil {
						fmt.Fprintf(sb, "%q ", x.Name)
					}
				case yang.Node:
					fmt.Fprintf(sb, "%s/%s ", x.Kind(), x.NName())
				default:
					fmt.Fprintf(sb, "%T ", v)
				}
			}
			sb.WriteString("] ")
		}
		sb.WriteString("}")
	}
	if len(e.Augmented) > 0 {
		var as []string
		for _, a := range e.Augmented {
			as = append(as, a.Name+"@"+yang.Source(a.Node))
		}
		sort.Strings(as)
		fmt.Fprintf(sb, " augmented=%q", as)
	}
	if len(e.Augments) > 0 {
		fmt.Fprintf(sb, " unapplied-augments=%d", len(e.Augments))
	}
	if len(e.Uses) > 0 {
		var us []string
		for _, u := range e.Uses {
			if u != nil && u.Uses != nil {
				us = append(us, u.Uses.Name)
			}
		}
		sort.Strings(us)
		fmt.Fprintf(sb, " uses=%q", us)
	}
	for _, err := range e.Errors {
		fmt.Fprintf(sb, " error=%q", err.Error())
	}
	sb.WriteString("\n")
	if e.RPC != nil {
		if e.RPC.Input != nil {
			fullEntry(sb, e.RPC.Input, path+"/input", depth+1, fullBudget)
		}
		if e.RPC.Output != nil {
			fullEntry(sb, e.RPC.Output, path+"/output", depth+1, fullBudget)
		}
	}
	var ks []string
	for k := range e.Dir {
		ks = append(ks, k)
	}
	sort.Strings(ks)
	for _, k := range ks {
		fullEntry(sb, e.Dir[k], path+"/"+k, depth+1, fullBudget)
	}
}

// Errors renders an error list in returned order.
func Errors(errs []error) string {
	var sb strings.Builder
	for i, e := range errs {
		fmt.Fprintf(&sb, "error[%d]: %s\n", i, e.Error())
	}
	return sb.String()
}

// Full renders everything a consumer can observe after Process: which module
// each key denotes, identities with their value lists in order, and every
// node of every module and submodule tree.
func Full(ms *yang.Modules, trees bool) string {
	var sb strings.Builder
	budget := NodeBudget
	fullBudget := &budget
	for _, k := range sortedModKeys(ms.Modules) {
		fmt.Fprintf(&sb, "Modules[%s] -> %s\n", k, ms.Modules[k].FullName())
	}
	for _, k := range sortedModKeys(ms.SubModules) {
		fmt.Fprintf(&sb, "SubModules[%s] -> %s\n", k, ms.SubModules[k].FullName())
	}
	for _, set := range []map[string]*yang.Module{ms.Modules, ms.SubModules} {
		for _, m := range DistinctModules(set) {
			fmt.Fprintf(&sb, "== %s %s\n", m.Kind(), m.FullName())
			for _, imp := range m.Import {
				if imp.Module != nil {
					fmt.Fprintf(&sb, "import %s as %s -> %s\n", imp.Name, imp.Prefix.Name, imp.Module.FullName())
				} else {
					fmt.Fprintf(&sb, "import %s -> unbound\n", imp.Name)
				}
			}
			for _, inc := range m.Include {
				if inc.Module != nil {
					fmt.Fprintf(&sb, "include %s -> %s\n", inc.Name, inc.Module.FullName())
				} else {
					fmt.Fprintf(&sb, "include %s -> unbound\n", inc.Name)
				}
			}
			if !trees {
				continue
			}
			e := yang.ToEntry(m)
			for _, id := range e.Identities {
				fmt.Fprintf(&sb, "identity %s values=[", id.Name)
				for _, v := range id.Values {
					fmt.Fprintf(&sb, "%s:%s ", OwnerName(v), v.Name)
				}
				sb.WriteString("]\n")
			}
			fullEntry(&sb, e, "/"+e.Name, 0, fullBudget)
		}
	}
	return sb.String()
}

// Invariants checks the C04 tree invariants over every module and submodule
// tree and returns the violations found (empty = proper trees, no errors).
func Invariants(ms *yang.Modules) []string {
	var bad []string
	add := func(format string, a ...interface{}) {
		if len(bad) < 20 {
			bad = append(bad, fmt.Sprintf(format, a...))
		}
	}
	seen := map[*yang.Entry]string{}
	var walk func(e *yang.Entry, parent *yang.Entry, path string, depth int)
	walk = func(e *yang.Entry, parent *yang.Entry, path string, depth int) {
		if e == nil {
			add("%s: nil entry", path)
			return
		}
		if depth > 300 {
			add("%s: tree deeper than 300 (cycle?)", path)
			return
		}
		if prev, ok := seen[e]; ok {
			add("node object shared between %s and %s", prev, path)
			return
		}
		seen[e] = path
		if e.Parent != parent {
			pp := "<nil>"
			if e.Parent != nil {
				pp = e.Parent.Path()
			}
			add("%s: parent link points to %s", path, pp)
		}
		if len(e.Errors) > 0 {
			add("%s: node carries %d recorded error(s) after a clean Process: %v", path, len(e.Errors), e.Errors[0])
		}
		if len(e.Augments) > 0 {
			add("%s: %d augment(s) left unapplied", path, len(e.Augments))
		}
		isLeaf := e.Kind == yang.LeafEntry
		if isLeaf {
			if e.Type == nil {
				add("%s: leaf without resolved type", path)
			}
			if e.Dir != nil {
				add("%s: leaf with a child map", path)
			}
		} else {
			if e.Dir == nil {
				add("%s: %s without child map", path, e.Kind)
			}
			if e.Type != nil {
				add("%s: %s with a type", path, e.Kind)
			}
			isList := e.Node != nil && e.Node.Kind() == "list"
			if isList != (e.ListAttr != nil) {
				add("%s: %s (node kind %s) list attributes present=%v", path, e.Kind, nodeKind(e), e.ListAttr != nil)
			}
		}
		if e.Kind == yang.ChoiceEntry {
			for k, c := range e.Dir {
				if c != nil && c.Kind != yang.CaseEntry {
					add("%s: choice member %s is a %s, not a case", path, k, c.Kind)
				}
			}
		}
		if e.RPC != nil {
			if e.RPC.Input != nil {
				if e.RPC.Input.Name != "input" || e.RPC.Input.Kind != yang.InputEntry {
					add("%s: rpc input is named %q kind %s", path, e.RPC.Input.Name, e.RPC.Input.Kind)
				}
				walk(e.RPC.Input, e, path+"/input", depth+1)
			}
			if e.RPC.Output != nil {
				if e.RPC.Output.Name != "output" || e.RPC.Output.Kind != yang.OutputEntry {
					add("%s: rpc output is named %q kind %s", path, e.RPC.Output.Name, e.RPC.Output.Kind)
				}
				walk(e.RPC.Output, e, path+"/output", depth+1)
			}
		}
		var ks []string
		for k := range e.Dir {
			ks = append(ks, k)
		}
		sort.Strings(ks)
		for _, k := range ks {
			c := e.Dir[k]
			if c == nil {
				add("%s/%s: nil child", path, k)
				continue
			}
			if c.Name != k {
				add("%s: child filed under %q is named %q", path, k, c.Name)
			}
			walk(c, e, path+"/"+k, depth+1)
		}
	}
	for _, set := range []map[string]*yang.Module{ms.Modules, ms.SubModules} {
		for _, m := range DistinctModules(set) {
			e := yang.ToEntry(m)
			walk(e, nil, "/"+m.FullName(), 0)
			if errs := e.GetErrors(); len(errs) > 0 {
				add("/%s: GetErrors() returns %d error(s) after a clean Process: %v", m.FullName(), len(errs), errs[0])
			}
		}
	}
	return bad
}

func nodeKind(e *yang.Entry) string {
	if e.Node == nil {
		return "<nil>"
	}
	return e.Node.Kind()
}
