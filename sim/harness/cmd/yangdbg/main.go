// yangdbg is a developer tool: it generates scenarios with a profile and tallies
// what goyang says about them (first error line), to tune the generator.
package main

import (
	"flag"
	"fmt"
	"regexp"
	"sort"
	"strings"

	"github.com/openconfig/goyang/zzverif/maporder"
	"github.com/openconfig/goyang/zzverif/model"
	"github.com/openconfig/goyang/zzverif/props"
	"github.com/openconfig/goyang/zzverif/tape"
	"github.com/openconfig/goyang/zzverif/world"
)

var num = regexp.MustCompile(`[0-9]+`)

func main() {
	n := flag.Int("n", 500, "")
	seed := flag.Uint64("seed", 1, "")
	prof := flag.String("profile", "general", "")
	show := flag.String("show", "", "print the scenario of the first run whose first error matches this regexp")
	flag.Parse()
	tally := map[string]int{}
	var re *regexp.Regexp
	if *show != "" {
		re = regexp.MustCompile(*show)
	}
	for i := 0; i < *n; i++ {
		t := tape.New(tape.MixN(*seed, uint64(i)))
		p := props.ProfileByName(*prof, t.Sub("profile"))
		g := model.Generate(t.Sub("scenario"), p)
		texts := model.RenderAll(g.S)
		spec := &world.Spec{Texts: texts, Sched: maporder.Canonical()}
		var names []string
		for k := range texts {
			names = append(names, k)
		}
		sort.Strings(names)
		for _, k := range names {
			spec.Ops = append(spec.Ops, world.Op{Op: "parse", Name: k})
		}
		spec.Ops = append(spec.Ops, world.Op{Op: "process"})
		res := world.Exec(spec)
		key := "clean"
		cp := model.Compile(g.S)
		for _, r := range res.Ops {
			if r.Panic != "" {
				key = "PANIC " + r.Frame + ": " + r.Panic
				break
			}
			if r.Overrun != "" {
				key = "OVERRUN " + r.Overrun
				break
			}
			if r.Err != "" {
				key = "load: " + r.Err
				break
			}
			if len(r.Errs) > 0 {
				key = "process: " + r.Errs[0]
				break
			}
		}
		if key == "clean" && len(g.Injected) > 0 {
			key = fmt.Sprintf("clean despite %v; ref: %v", g.Injected, cp.Conflicts)
			if len(key) > 200 {
				key = key[:200]
			}
		}
		if i := strings.Index(key, "\n"); i > 0 {
			key = key[:i]
		}
		if key == "clean" && len(cp.Conflicts) == 0 {
			if d := props.RefCompare(res.MS, g.S, cp); d != "" {
				lines := strings.Split(d, "\n")
				key = "REFDIFF " + lines[1]
				if re != nil && re.MatchString(key) {
					for _, k := range names {
						fmt.Printf("---- %s\n%s", k, texts[k])
					}
					fmt.Println(d)
					return
				}
			}
		}
		short := num.ReplaceAllString(key, "N")
		if len(short) > 210 {
			short = short[:210]
		}
		tag := fmt.Sprintf("[inj=%v refconf=%v] ", len(g.Injected) > 0, len(cp.Conflicts) > 0)

		tally[tag+short]++
		if re != nil && re.MatchString(key) {
			for _, k := range names {
				fmt.Printf("---- %s\n%s", k, texts[k])
			}
			fmt.Println("outcome:", key)
			for _, r := range res.Ops {
				if r.Stack != "" {
					fmt.Println(r.Stack)
				}
			}
			fmt.Println("injected:", g.Injected, "ref conflicts:", cp.Conflicts)
			return
		}
	}
	var ks []string
	for k := range tally {
		ks = append(ks, k)
	}
	sort.Slice(ks, func(i, j int) bool { return tally[ks[i]] > tally[ks[j]] })
	for _, k := range ks {
		fmt.Printf("%6d %s\n", tally[k], k)
	}
}
