// yangsim is the simulation runner.  It is built inside the instrumented
// scratch copy of goyang (as github.com/openconfig/goyang/zzverif/cmd/yangsim)
// by /verif/check.
package main

import (
	"encoding/json"
	"flag"
	"fmt"
	"os"
	"runtime"
	"strconv"
	"strings"

	"github.com/openconfig/goyang/pkg/zzsim"
	"github.com/openconfig/goyang/zzverif/core"
	_ "github.com/openconfig/goyang/zzverif/props"
	"github.com/openconfig/goyang/zzverif/tape"
)

func usage() {
	fmt.Fprintln(os.Stderr, `usage:
  yangsim check <ID> [-tier quick|thorough] [-seed N] [-workers N] [-evidence F] [-replaydir D] [-known F] [-scratch D] [-verif D] [-race EXE] [-runs N]
  yangsim worker <ID> -tier T -seed N -from I -to J -step K -every E [-skip a,b] [-out D -tag T]
  yangsim runcase <ID>            (case JSON on stdin)
  yangsim replay <file> [-known F] [-race EXE]
  yangsim sites
  properties:`, strings.Join(core.IDs(), " "))
	os.Exit(2)
}

func main() {
	if len(os.Args) < 2 {
		usage()
	}
	exe, err := os.Executable()
	if err != nil {
		exe = os.Args[0]
	}
	switch os.Args[1] {
	case "check":
		if len(os.Args) < 3 {
			usage()
		}
		d := core.Lookup(os.Args[2])
		if d == nil {
			fmt.Fprintln(os.Stderr, "unknown property", os.Args[2])
			os.Exit(2)
		}
		fs := flag.NewFlagSet("check", flag.ExitOnError)
		o := core.CheckOpts{Exe: exe}
		fs.StringVar(&o.Tier, "tier", "quick", "")
		seed := fs.String("seed", "1", "")
		fs.IntVar(&o.Workers, "workers", runtime.NumCPU(), "")
		fs.StringVar(&o.EvidencePath, "evidence", "", "")
		fs.StringVar(&o.ReplayDir, "replaydir", "replays", "")
		fs.StringVar(&o.KnownPath, "known", "known_findings.json", "")
		fs.StringVar(&o.ScratchDir, "scratch", os.TempDir(), "")
		fs.StringVar(&o.VerifDir, "verif", ".", "")
		fs.StringVar(&o.RaceExe, "race", "", "")
		fs.IntVar(&o.RunsOverride, "runs", 0, "")
		fs.Parse(os.Args[3:])
		o.Seed = parseSeed(*seed)
		if o.Workers > 16 {
			o.Workers = 16
		}
		os.Exit(core.Check(d, o))
	case "worker":
		if len(os.Args) < 3 {
			usage()
		}
		d := core.Lookup(os.Args[2])
		if d == nil {
			fmt.Fprintln(os.Stderr, "unknown property", os.Args[2])
			os.Exit(2)
		}
		fs := flag.NewFlagSet("worker", flag.ExitOnError)
		var o core.WorkerOpts
		fs.StringVar(&o.Tier, "tier", "quick", "")
		seed := fs.String("seed", "1", "")
		fs.IntVar(&o.From, "from", 0, "")
		fs.IntVar(&o.To, "to", 0, "")
		fs.IntVar(&o.Step, "step", 1, "")
		fs.IntVar(&o.Every, "every", 1, "")
		fs.IntVar(&o.Samples, "samples", 2, "")
		fs.StringVar(&o.OutDir, "out", "", "")
		fs.StringVar(&o.Tag, "tag", "w", "")
		skip := fs.String("skip", "", "")
		fs.BoolVar(&o.Trace, "trace", false, "")
		fs.Parse(os.Args[3:])
		o.Seed = parseSeed(*seed)
		o.Skip = map[int]bool{}
		for _, s := range strings.Split(*skip, ",") {
			if n, err := strconv.Atoi(s); err == nil {
				o.Skip[n] = true
			}
		}
		core.Worker(d, o, os.Stdout)
	case "runcase":
		if len(os.Args) < 3 {
			usage()
		}
		d := core.Lookup(os.Args[2])
		if d == nil {
			fmt.Fprintln(os.Stderr, "unknown property", os.Args[2])
			os.Exit(2)
		}
		if err := core.RunCase(d, os.Stdin, os.Stdout); err != nil {
			fmt.Fprintln(os.Stderr, err)
			os.Exit(2)
		}
	case "replay":
		if len(os.Args) < 3 {
			usage()
		}
		fs := flag.NewFlagSet("replay", flag.ExitOnError)
		o := core.CheckOpts{Exe: exe}
		fs.StringVar(&o.KnownPath, "known", "known_findings.json", "")
		fs.StringVar(&o.RaceExe, "race", "", "")
		fs.Parse(os.Args[3:])
		os.Exit(core.ReplayFile(os.Args[2], o))
	case "selftest":
		fs := flag.NewFlagSet("selftest", flag.ExitOnError)
		tier := fs.String("tier", "quick", "")
		seed := fs.String("seed", "1", "")
		race := fs.String("race", "", "")
		scratch := fs.String("scratch", os.TempDir(), "")
		only := fs.String("only", "", "")
		fs.Parse(os.Args[2:])
		os.Exit(core.SelfTest(exe, *race, *tier, parseSeed(*seed), *scratch, *only))
	case "show":
		if len(os.Args) < 3 {
			usage()
		}
		d := core.Lookup(os.Args[2])
		if d == nil {
			fmt.Fprintln(os.Stderr, "unknown property", os.Args[2])
			os.Exit(2)
		}
		fs := flag.NewFlagSet("show", flag.ExitOnError)
		tier := fs.String("tier", "quick", "")
		seed := fs.String("seed", "1", "")
		run := fs.Int("run", 0, "")
		exec := fs.Bool("exec", false, "")
		fs.Parse(os.Args[3:])
		c := d.Generate(tape.New(core.RunSeed(parseSeed(*seed), d.ID(), *run)), *tier)
		if f, ok := d.(interface{ Finalize(core.Case) }); ok {
			f.Finalize(c)
		}
		if ds, ok := d.(interface{ Describe(core.Case) string }); ok {
			fmt.Println(ds.Describe(c))
		} else {
			fmt.Println(string(core.MarshalCase(c)))
		}
		if *exec {
			oc := core.SafeRun(d, c)
			b, _ := json.MarshalIndent(oc, "", " ")
			fmt.Println(string(b))
		}
	case "sites":
		for _, s := range zzsim.Sites {
			if s.Kind == "func" || s.Kind == "loop" {
				continue
			}
			fmt.Printf("%-9s %s  [%s:%d] key=%s\n", s.Kind, s.ID, s.File, s.Line, s.KeyType)
		}
		for _, w := range zzsim.Warnings {
			fmt.Println("WARNING", w)
		}
	default:
		usage()
	}
}

func parseSeed(s string) uint64 {
	if n, err := strconv.ParseUint(s, 10, 64); err == nil {
		return n
	}
	if n, err := strconv.ParseInt(s, 10, 64); err == nil {
		return uint64(n)
	}
	// any other string: hash it
	var h uint64 = 1469598103934665603
	for i := 0; i < len(s); i++ {
		h ^= uint64(s[i])
		h *= 1099511628211
	}
	return h
}
