// Package tape is the single source of randomness of the simulator: a
// splitmix64 generator seeded from VERIF_SEED, with labelled independent
// sub-streams so that changing how many values one dimension (scenario,
// history, load order, map order, faults, scheduler) consumes does not
// re-randomise the others.  It never reads a clock and logging never draws
// from it.
package tape

import "hash/fnv"

// Tape is a deterministic pseudo-random stream.
type Tape struct {
	seed  uint64
	state uint64
	Draws uint64
}

// New returns the stream for seed.
func New(seed uint64) *Tape { return &Tape{seed: seed, state: seed} }

// Mix hashes a seed with labels into a new seed.
func Mix(seed uint64, labels ...string) uint64 {
	h := fnv.New64a()
	var b [8]byte
	for i := 0; i < 8; i++ {
		b[i] = byte(seed >> (8 * i))
	}
	h.Write(b[:])
	for _, l := range labels {
		h.Write([]byte{0})
		h.Write([]byte(l))
	}
	x := h.Sum64()
	// one splitmix round to spread fnv's weak low bits
	x += 0x9e3779b97f4a7c15
	x = (x ^ (x >> 30)) * 0xbf58476d1ce4e5b9
	x = (x ^ (x >> 27)) * 0x94d049bb133111eb
	return x ^ (x >> 31)
}

// MixN hashes a seed with an integer.
func MixN(seed uint64, n uint64) uint64 {
	x := seed ^ (n+0x9e3779b97f4a7c15)*0xbf58476d1ce4e5b9
	x += 0x9e3779b97f4a7c15
	x = (x ^ (x >> 30)) * 0xbf58476d1ce4e5b9
	x = (x ^ (x >> 27)) * 0x94d049bb133111eb
	return x ^ (x >> 31)
}

// Sub returns an independent stream derived from t's seed and label.  It does
// not consume from t.
func (t *Tape) Sub(label string) *Tape { return New(Mix(t.seed, label)) }

// Seed returns the seed this stream was created with.
func (t *Tape) Seed() uint64 { return t.seed }

// Uint64 returns the next value.
func (t *Tape) Uint64() uint64 {
	t.Draws++
	t.state += 0x9e3779b97f4a7c15
	x := t.state
	x = (x ^ (x >> 30)) * 0xbf58476d1ce4e5b9
	x = (x ^ (x >> 27)) * 0x94d049bb133111eb
	return x ^ (x >> 31)
}

// Intn returns a value in [0, n).  n <= 0 returns 0.
func (t *Tape) Intn(n int) int {
	if n <= 1 {
		return 0
	}
	return int(t.Uint64() % uint64(n))
}

// Range returns a value in [lo, hi].
func (t *Tape) Range(lo, hi int) int {
	if hi <= lo {
		return lo
	}
	return lo + t.Intn(hi-lo+1)
}

// Chance returns true with probability num/den.
func (t *Tape) Chance(num, den int) bool { return t.Intn(den) < num }

// Pick returns a random element index weighted by w.
func (t *Tape) Weighted(w ...int) int {
	sum := 0
	for _, x := range w {
		sum += x
	}
	if sum <= 0 {
		return 0
	}
	r := t.Intn(sum)
	for i, x := range w {
		if r < x {
			return i
		}
		r -= x
	}
	return len(w) - 1
}

// Perm returns a random permutation of 0..n-1.
func (t *Tape) Perm(n int) []int {
	p := make([]int, n)
	for i := range p {
		p[i] = i
	}
	for i := n - 1; i > 0; i-- {
		j := t.Intn(i + 1)
		p[i], p[j] = p[j], p[i]
	}
	return p
}

// Hash64 is a convenience FNV-1a hash of a byte string, used for distinct-case
// and end-state keys.
func Hash64(b []byte) uint64 {
	h := fnv.New64a()
	h.Write(b)
	return h.Sum64()
}
