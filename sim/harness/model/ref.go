package model

import (
	"fmt"
	"sort"
	"strconv"
	"strings"
)

// This file is the reference schema compiler: a small, independent
// interpretation of the abstract scenario (maps and slices only).  It expands
// uses by direct reference to the grouping object, merges included submodules,
// grafts augments to a fixpoint, inserts implicit cases and applies
// deviations in written order.  It never looks at YANG text and shares no code
// with goyang.

// XType is the resolved form of a type.
type XType struct {
	Kind       string // built-in kind at the end of the typedef chain
	Name       string // name of the referenced type (typedef or built-in), without prefix
	Default    string
	HasDefault bool
	Units      string
	Base       string // identityref: "ownermodule:identity"
	Enums      []string
	Bits       []string
	Path       string
	Frac       int
	Patterns   int
	Posix      int
	Union      []*XType
}

// XNode is one node of an expected schema tree.
type XNode struct {
	Name      string
	Kind      string
	NSMod     string // owner module of the node's namespace ("" = inherit from parent)
	Config    string
	Mandatory string
	Default   []string
	Units     string
	Desc      string
	// Exts: arguments of the extension statements the node carries (its own,
	// then those of every uses statement that brought it along); compared as a set.
	Exts     []string
	Key      string
	HasList  bool
	Min, Max uint64
	ByUser   bool
	Type     *XType
	Kids     map[string]*XNode
	Input    *XNode
	Output   *XNode
	// HasRPC mirrors whether the node can lazily grow input/output.
	HasRPC bool
	// Implicit marks a case inserted around a shorthand choice member.
	Implicit bool
	// Grafted marks the root of a subtree added by an augment.
	Grafted bool
	// Deviated marks a node named by some deviation; Removed one deleted by not-supported.
	Deviated bool
	Removed  bool
	Parent   *XNode
	// ObsRO, ObsInst and ObsErrors are set on trees extracted from the library
	// (observed values instead of computed ones).
	ObsRO   *bool
	ObsInst string
}

// Compiled is the result of the reference compilation.
type Compiled struct {
	// Trees maps module name (modules only) to its expected root.
	Trees map[string]*XNode
	// Conflicts lists the reasons why processing is expected to report errors.
	Conflicts []string
	// Identities maps "ownermodule:name" to the sorted list of "ownermodule:name" of its transitive derivations.
	Identities map[string][]string
	// AugApplied counts augments applied, AugPasses the number of fixpoint passes needed.
	AugApplied int
	AugLate    int // augments applied in the pass after implicit-case insertion
	AugPasses  int
}

const MaxUint64 = ^uint64(0)

func (x *XNode) clone(parent *XNode) *XNode {
	n := *x
	n.Parent = parent
	n.Default = append([]string(nil), x.Default...)
	n.Exts = append([]string(nil), x.Exts...)
	if x.Kids != nil {
		n.Kids = map[string]*XNode{}
		for k, v := range x.Kids {
			n.Kids[k] = v.clone(&n)
		}
	}
	if x.Input != nil {
		n.Input = x.Input.clone(&n)
	}
	if x.Output != nil {
		n.Output = x.Output.clone(&n)
	}
	return &n
}

// IsDir reports whether the node kind has a child map.
func (x *XNode) IsDir() bool { return x.Kind != KLeaf && x.Kind != KLeafList }

type compiler struct {
	s         *Scenario
	ignoreNS  bool
	tdMemo    map[*Typedef]*XType // resolved typedefs (chains with fan-out would otherwise cost 2^depth)
	out       *Compiled
	gstack    []*Grouping
	conflicts map[string]bool
}

func (c *compiler) conflict(format string, a ...interface{}) {
	msg := fmt.Sprintf(format, a...)
	if !c.conflicts[msg] {
		c.conflicts[msg] = true
		c.out.Conflicts = append(c.out.Conflicts, msg)
	}
}

// Compile interprets the scenario under default options.
func Compile(s *Scenario) *Compiled { return CompileWith(s, false) }

// CompileWith interprets the scenario; with ignoreNotSupported the target of a
// not-supported deviation is retained.
func CompileWith(s *Scenario, ignoreNotSupported bool) *Compiled {
	c := &compiler{s: s, ignoreNS: ignoreNotSupported, out: &Compiled{Trees: map[string]*XNode{}, Identities: map[string][]string{}}, conflicts: map[string]bool{}}
	// 1. per-module trees: own body plus included submodules
	for _, m := range s.Mods {
		if m.IsSub() {
			continue
		}
		root := &XNode{Name: m.Name, Kind: "module", NSMod: m.Name, Kids: map[string]*XNode{}}
		c.addBody(root, m, m.Body)
		seen := map[string]bool{}
		c.mergeIncludes(root, m, seen)
		c.out.Trees[m.Name] = root
	}
	// also compile submodule-only definitions for conflicts (groupings are expanded on demand)
	// 2. augments to a fixpoint
	type pending struct {
		m *Mod
		a *Augment
	}
	var todo []pending
	for _, m := range s.Mods {
		if m.IsSub() && !c.isIncluded(m) {
			// goyang still processes a loaded submodule's augments
		}
		for _, a := range m.Augments {
			if a.Relative {
				c.conflict("augment %s: relative path at the top level of a module", stepsString(a.Target))
				continue
			}
			if a.BadPrefix > 0 && a.BadPrefix < len(a.Target) {
				c.conflict("augment %s: step %d carries a prefix that the text does not declare", stepsString(a.Target), a.BadPrefix)
				continue
			}
			todo = append(todo, pending{m, a})
		}
	}
	apply := func(p pending, tgt *XNode) {
		c.out.AugApplied++
		if !tgt.IsDir() || tgt.Kind == KAnyData || tgt.Kind == KAnyXML {
			// a leaf, leaf-list, anydata or anyxml cannot have child nodes
			c.conflict("augment %s targets a %s", stepsString(p.a.Target), tgt.Kind)
			return
		}
		tmp := &XNode{Kind: "augment", Kids: map[string]*XNode{}}
		c.addBody(tmp, p.m, p.a.Body)
		for _, name := range sortedKids(tmp.Kids) {
			k := tmp.Kids[name]
			if tgt.Kids[name] != nil {
				c.conflict("augment %s: child %s already exists in the target", stepsString(p.a.Target), name)
				continue
			}
			k.NSMod = p.m.Owner()
			k.Grafted = true
			k.Parent = tgt
			tgt.Kids[name] = k
		}
	}
	for len(todo) > 0 {
		progress := false
		var rest []pending
		c.out.AugPasses++
		for _, p := range todo {
			tgt := c.find(p.a.Target, true)
			if tgt == nil {
				rest = append(rest, p)
				continue
			}
			progress = true
			apply(p, tgt)
		}
		todo = rest
		if !progress {
			break
		}
	}
	// 3. implicit cases
	for _, root := range c.out.Trees {
		fixChoice(root)
	}
	// 3b. one more pass, as the library makes it: an augment whose path runs
	// through an implicit case finds its target only now (the generator writes
	// at most one such augment per scenario, so the order of this pass does not
	// matter); what it adds may need implicit cases of its own
	if len(todo) > 0 {
		var rest []pending
		for _, p := range todo {
			tgt := c.find(p.a.Target, true)
			if tgt == nil {
				rest = append(rest, p)
				continue
			}
			c.out.AugLate++
			apply(p, tgt)
		}
		todo = rest
		for _, root := range c.out.Trees {
			fixChoice(root)
		}
	}
	for _, p := range todo {
		c.conflict("augment %s: target not found", stepsString(p.a.Target))
	}
	// 4. deviations, module by module, in written order
	for _, m := range s.Mods {
		for _, d := range m.Deviations {
			c.applyDeviation(m, d)
		}
	}
	// 5. identities
	c.identities()
	sort.Strings(c.out.Conflicts)
	return c.out
}

func (c *compiler) isIncluded(sub *Mod) bool {
	for _, m := range c.s.Mods {
		for _, inc := range m.Includes {
			if inc.Sub == sub.Name {
				return true
			}
		}
	}
	return false
}

func stepsString(steps []Step) string {
	var sb strings.Builder
	for _, st := range steps {
		sb.WriteString("/" + st.Mod + ":" + st.Name)
	}
	return sb.String()
}

func sortedKids(m map[string]*XNode) []string {
	var out []string
	for k := range m {
		out = append(out, k)
	}
	sort.Strings(out)
	return out
}

// mergeIncludes adds the data nodes of every submodule reachable through
// include statements from m, each once.
func (c *compiler) mergeIncludes(root *XNode, m *Mod, seen map[string]bool) {
	for _, inc := range m.Includes {
		if seen[inc.Sub] {
			continue
		}
		seen[inc.Sub] = true
		sub := c.s.Mod(inc.Sub)
		if sub == nil {
			c.conflict("include of unknown submodule %s", inc.Sub)
			continue
		}
		c.addBody(root, sub, sub.Body)
		c.mergeIncludes(root, sub, seen)
	}
}

// addBody expands body (text standing in module ctx) into parent.
func (c *compiler) addBody(parent *XNode, ctx *Mod, body []*Node) {
	for _, n := range body {
		if n.Kind == KUses {
			g, gm := c.FindGrouping(*n.Uses)
			if g == nil {
				c.conflict("uses of unknown grouping %s:%s", n.Uses.Mod, n.Uses.Name)
				continue
			}
			cyc := false
			for _, x := range c.gstack {
				if x == g {
					cyc = true
				}
			}
			if cyc {
				c.conflict("grouping %s uses itself", g.Name)
				continue
			}
			before := map[*XNode]bool{}
			for _, k := range parent.Kids {
				before[k] = true
			}
			c.gstack = append(c.gstack, g)
			c.addBody(parent, gm, g.Body)
			c.gstack = c.gstack[:len(c.gstack)-1]
			if n.Ext != "" {
				// the uses statement's extension statements travel with every
				// node the uses brings along
				for _, k := range parent.Kids {
					if !before[k] {
						for _, a := range strings.Split(n.Ext, ",") {
							if a != "" {
								k.Exts = append(k.Exts, a)
							}
						}
					}
				}
			}
			continue
		}
		x := c.node(ctx, n)
		switch n.Kind {
		case KInput:
			if parent.Input != nil {
				c.conflict("duplicate input")
			}
			x.Name = "input"
			x.Parent = parent
			parent.Input = x
			continue
		case KOutput:
			if parent.Output != nil {
				c.conflict("duplicate output")
			}
			x.Name = "output"
			x.Parent = parent
			parent.Output = x
			continue
		}
		if parent.Kids[x.Name] != nil {
			c.conflict("duplicate child %s in %s", x.Name, parent.Name)
			continue
		}
		x.Parent = parent
		parent.Kids[x.Name] = x
	}
}

func (c *compiler) node(ctx *Mod, n *Node) *XNode {
	x := &XNode{Name: n.Name, Kind: n.Kind, Config: n.Config, Mandatory: n.Mandatory, Desc: n.Desc, Key: n.Key}
	x.Default = append([]string(nil), n.Default...)
	for _, a := range strings.Split(n.Ext, ",") {
		if a != "" {
			x.Exts = append(x.Exts, a)
		}
	}
	switch n.Kind {
	case KLeaf:
		x.Type = c.ResolveType(ctx, n.Type)
	case KLeafList:
		x.Type = c.ResolveType(ctx, n.Type)
		x.HasList = true
	case KList:
		x.HasList = true
	}
	if x.HasList {
		x.Max = MaxUint64
		if n.Min != "" {
			v, err := strconv.ParseUint(n.Min, 10, 64)
			if err != nil {
				c.conflict("bad min-elements %q", n.Min)
			}
			x.Min = v
		}
		if n.Max != "" && n.Max != "unbounded" {
			v, err := strconv.ParseUint(n.Max, 10, 64)
			if err != nil || v == 0 {
				c.conflict("bad max-elements %q", n.Max)
			}
			x.Max = v
		}
		switch n.OrderedBy {
		case "user":
			x.ByUser = true
		case "", "system":
		default:
			c.conflict("bad ordered-by %q", n.OrderedBy)
		}
	}
	if x.IsDir() {
		x.Kids = map[string]*XNode{}
		c.addBody(x, ctx, n.Kids)
	}
	switch n.Kind {
	case KRPC, KAction:
		// an rpc or action has an input and an output even if it declares neither
		x.HasRPC = true
	}
	// definitions in local scope are checked for resolvability too
	for _, td := range n.Typedefs {
		c.ResolveType(ctx, td.Type)
	}
	return x
}

// FindGrouping returns the grouping ref names and the module whose text holds it.
func (c *compiler) FindGrouping(ref Ref) (*Grouping, *Mod) {
	return FindGrouping(c.s, ref)
}

// FindGrouping looks a grouping up by (module, name) in every scope of the module.
func FindGrouping(s *Scenario, ref Ref) (*Grouping, *Mod) {
	m := s.Mod(ref.Mod)
	if m == nil {
		return nil, nil
	}
	var found *Grouping
	var inG func(g *Grouping, scoped bool)
	var inBody func(body []*Node)
	inG = func(g *Grouping, scoped bool) {
		if found != nil {
			return
		}
		if g.Name == ref.Name && (ref.Scope == "" || scoped) {
			found = g
			return
		}
		for _, x := range g.Groupings {
			inG(x, false)
		}
		inBody(g.Body)
	}
	inBody = func(body []*Node) {
		for _, n := range body {
			for _, g := range n.Groupings {
				inG(g, ref.Scope != "" && n.Name == ref.Scope)
			}
			inBody(n.Kids)
		}
	}
	for _, g := range m.Groupings {
		inG(g, false)
	}
	inBody(m.Body)
	for _, a := range m.Augments {
		inBody(a.Body)
	}
	return found, m
}

// FindTypedef looks a typedef up by (module, name) in every scope of the module.
func FindTypedef(s *Scenario, ref Ref) *Typedef {
	m := s.Mod(ref.Mod)
	if m == nil {
		return nil
	}
	var found *Typedef
	check := func(tds []*Typedef) {
		for _, td := range tds {
			if found == nil && td.Name == ref.Name {
				found = td
			}
		}
	}
	var inG func(g *Grouping)
	var inBody func(body []*Node)
	inG = func(g *Grouping) {
		check(g.Typedefs)
		for _, x := range g.Groupings {
			inG(x)
		}
		inBody(g.Body)
	}
	inBody = func(body []*Node) {
		for _, n := range body {
			check(n.Typedefs)
			for _, g := range n.Groupings {
				inG(g)
			}
			inBody(n.Kids)
		}
	}
	check(m.Typedefs)
	for _, g := range m.Groupings {
		inG(g)
	}
	inBody(m.Body)
	for _, a := range m.Augments {
		inBody(a.Body)
	}
	return found
}

var builtinKinds = map[string]bool{"int8": true, "int16": true, "int32": true, "int64": true, "uint8": true, "uint16": true, "uint32": true, "uint64": true,
	"binary": true, "bits": true, "boolean": true, "decimal64": true, "empty": true, "enumeration": true, "identityref": true, "instance-identifier": true, "leafref": true, "string": true, "union": true}

// ResolveType follows the typedef chain of t.
func (c *compiler) ResolveType(ctx *Mod, t *Type) *XType {
	return c.resolveType(ctx, t, 0)
}

func (c *compiler) resolveType(ctx *Mod, t *Type, depth int) *XType {
	if t == nil {
		c.conflict("missing type")
		return &XType{Kind: "none"}
	}
	if depth > 50 {
		c.conflict("typedef cycle through %s", t.Ref.Name)
		return &XType{Kind: "none"}
	}
	var x *XType
	if t.Ref.Mod == "" {
		if !builtinKinds[t.Ref.Name] {
			c.conflict("unknown built-in type %s", t.Ref.Name)
			return &XType{Kind: "none", Name: t.Ref.Name}
		}
		x = &XType{Kind: t.Ref.Name, Name: t.Ref.Name}
	} else {
		td := FindTypedef(c.s, t.Ref)
		if td == nil {
			c.conflict("unknown typedef %s:%s", t.Ref.Mod, t.Ref.Name)
			return &XType{Kind: "none", Name: t.Ref.Name}
		}
		if c.tdMemo == nil {
			c.tdMemo = map[*Typedef]*XType{}
		}
		base, ok := c.tdMemo[td]
		if !ok {
			base = c.resolveType(c.s.Mod(t.Ref.Mod), td.Type, depth+1)
			c.tdMemo[td] = base
		}
		cp := *base
		cp.Union = append([]*XType(nil), base.Union...)
		x = &cp
		x.Name = td.Name
		if td.Units != "" {
			x.Units = td.Units
		}
		if td.Default != "" {
			x.Default, x.HasDefault = td.Default, true
		}
	}
	if t.FractionDigits != 0 {
		x.Frac = t.FractionDigits
	}
	if len(t.Enums) > 0 {
		x.Enums = nil
		for _, e := range t.Enums {
			x.Enums = append(x.Enums, e.Name)
		}
		sort.Strings(x.Enums)
	}
	if len(t.Bits) > 0 {
		x.Bits = nil
		for _, e := range t.Bits {
			x.Bits = append(x.Bits, e.Name)
		}
		sort.Strings(x.Bits)
	}
	if t.Path != "" {
		x.Path = t.Path
	}
	x.Patterns += len(t.Patterns)
	x.Posix += len(t.Posix)
	if t.Base != nil {
		bm := c.s.Mod(t.Base.Mod)
		if bm == nil || !c.identityExists(*t.Base) {
			c.conflict("identityref base %s:%s undefined", t.Base.Mod, t.Base.Name)
		} else {
			x.Base = bm.Owner() + ":" + t.Base.Name
		}
	}
	for _, u := range t.Union {
		x.Union = append(x.Union, c.resolveType(ctx, u, depth+1))
	}
	return x
}

func (c *compiler) identityExists(ref Ref) bool {
	m := c.s.Mod(ref.Mod)
	if m == nil {
		return false
	}
	for _, id := range m.Identities {
		if id.Name == ref.Name {
			return true
		}
	}
	return false
}

// find resolves an absolute path in the expected trees.  With create set,
// undeclared rpc input/output are created on demand, as the library does.
func (c *compiler) find(steps []Step, create bool) *XNode {
	if len(steps) == 0 {
		return nil
	}
	first := c.s.Mod(steps[0].Mod)
	if first == nil {
		return nil
	}
	cur := c.out.Trees[first.Owner()]
	for _, st := range steps {
		if cur == nil {
			return nil
		}
		if cur.HasRPC && (st.Name == "input" || st.Name == "output") {
			if st.Name == "input" {
				if cur.Input == nil {
					if !create {
						return nil
					}
					cur.Input = &XNode{Name: "input", Kind: KInput, Kids: map[string]*XNode{}, Parent: cur}
				}
				cur = cur.Input
			} else {
				if cur.Output == nil {
					if !create {
						return nil
					}
					cur.Output = &XNode{Name: "output", Kind: KOutput, Kids: map[string]*XNode{}, Parent: cur}
				}
				cur = cur.Output
			}
			continue
		}
		if cur.Kids == nil {
			return nil
		}
		cur = cur.Kids[st.Name]
	}
	return cur
}

// Find resolves an absolute path in the compiled trees without creating anything.
func (cp *Compiled) Find(s *Scenario, steps []Step) *XNode {
	c := &compiler{s: s, out: cp, conflicts: map[string]bool{}}
	return c.find(steps, false)
}

func fixChoice(x *XNode) {
	if x.Kind == KChoice {
		for _, name := range sortedKids(x.Kids) {
			k := x.Kids[name]
			if k.Kind != KCase {
				cs := &XNode{Name: k.Name, Kind: KCase, Config: k.Config, Kids: map[string]*XNode{k.Name: k}, Implicit: true, Parent: x}
				k.Parent = cs
				x.Kids[name] = cs
			}
		}
	}
	for _, k := range x.Kids {
		fixChoice(k)
	}
	if x.Input != nil {
		fixChoice(x.Input)
	}
	if x.Output != nil {
		fixChoice(x.Output)
	}
}

func (c *compiler) applyDeviation(m *Mod, d *Deviation) {
	if d.BadPrefix > 0 && d.BadPrefix < len(d.Target) {
		c.conflict("deviation %s: step %d carries a prefix that the text does not declare", stepsString(d.Target), d.BadPrefix)
		return
	}
	tgt := c.find(d.Target, true)
	if tgt == nil {
		c.conflict("deviation %s: target not found", stepsString(d.Target))
		return
	}
	tgt.Deviated = true
	isListy := tgt.Kind == KList || tgt.Kind == KLeafList
	for _, dv := range d.Deviates {
		switch dv.Kind {
		case "not-supported":
			if tgt.Parent == nil {
				c.conflict("deviation %s: not-supported without parent", stepsString(d.Target))
				continue
			}
			p := tgt.Parent
			switch {
			case p.Input == tgt:
				if !c.ignoreNS {
					p.Input = nil
					tgt.Removed = true
				}
			case p.Output == tgt:
				if !c.ignoreNS {
					p.Output = nil
					tgt.Removed = true
				}
			default:
				if p.Kids[tgt.Name] != tgt {
					c.conflict("deviation %s: target already removed", stepsString(d.Target))
				}
				if !c.ignoreNS {
					delete(p.Kids, tgt.Name)
					tgt.Removed = true
				}
			}
		case "add", "replace":
			if dv.Config != "" {
				tgt.Config = dv.Config
			}
			if len(dv.Default) > 0 {
				if dv.Kind == "add" {
					switch {
					case tgt.Kind == KLeafList:
						tgt.Default = append(tgt.Default, dv.Default...)
					case len(tgt.Default) != 0:
						c.conflict("deviation %s: add default where one exists", stepsString(d.Target))
					default:
						tgt.Default = append([]string(nil), dv.Default...)
					}
				} else {
					tgt.Default = append([]string(nil), dv.Default...)
				}
			}
			if dv.Mandatory != "" {
				tgt.Mandatory = dv.Mandatory
			}
			if dv.Min != "" {
				if !isListy {
					c.conflict("deviation %s: min-elements on a non-list", stepsString(d.Target))
				} else {
					v, err := strconv.ParseUint(dv.Min, 10, 64)
					if err != nil {
						c.conflict("deviation: bad min-elements")
					}
					tgt.Min = v
				}
			}
			if dv.Max != "" {
				if !isListy {
					c.conflict("deviation %s: max-elements on a non-list", stepsString(d.Target))
				} else if dv.Max == "unbounded" {
					tgt.Max = MaxUint64
				} else {
					v, err := strconv.ParseUint(dv.Max, 10, 64)
					if err != nil || v == 0 {
						c.conflict("deviation: bad max-elements")
					}
					tgt.Max = v
				}
			}
			if dv.Units != "" {
				tgt.Units = dv.Units
			}
			if dv.Type != nil {
				tgt.Type = c.ResolveType(m, dv.Type)
			}
		case "delete":
			if dv.Config != "" {
				tgt.Config = ""
			}
			if len(dv.Default) > 0 {
				switch {
				case tgt.Kind == KLeafList:
					c.conflict("deviation %s: delete default on a leaf-list", stepsString(d.Target))
				case len(tgt.Default) == 0:
					c.conflict("deviation %s: delete of an absent default", stepsString(d.Target))
				case tgt.Default[0] != dv.Default[0]:
					c.conflict("deviation %s: delete of a different default", stepsString(d.Target))
				default:
					tgt.Default = nil
				}
			}
			if dv.Mandatory != "" {
				tgt.Mandatory = ""
			}
			if dv.Min != "" {
				if !isListy {
					c.conflict("deviation %s: min-elements on a non-list", stepsString(d.Target))
				} else {
					v, _ := strconv.ParseUint(dv.Min, 10, 64)
					if v != tgt.Min {
						c.conflict("deviation %s: delete of a different min-elements", stepsString(d.Target))
					}
					tgt.Min = 0
				}
			}
			if dv.Max != "" {
				if !isListy {
					c.conflict("deviation %s: max-elements on a non-list", stepsString(d.Target))
				} else {
					v := MaxUint64
					if dv.Max != "unbounded" {
						v, _ = strconv.ParseUint(dv.Max, 10, 64)
					}
					if v != tgt.Max {
						c.conflict("deviation %s: delete of a different max-elements", stepsString(d.Target))
					}
					tgt.Max = MaxUint64
				}
			}
		default:
			c.conflict("deviation %s: unknown deviate kind %s", stepsString(d.Target), dv.Kind)
		}
	}
}

// identities computes the transitive derivation closure of the identity graph.
func (c *compiler) identities() {
	children := map[string][]string{}
	all := map[string]bool{}
	for _, m := range c.s.Mods {
		for _, id := range m.Identities {
			key := m.Owner() + ":" + id.Name
			if all[key] {
				c.conflict("identity %s defined twice", key)
			}
			all[key] = true
		}
	}
	for _, m := range c.s.Mods {
		for _, id := range m.Identities {
			key := m.Owner() + ":" + id.Name
			for _, b := range id.Bases {
				bm := c.s.Mod(b.Mod)
				if bm == nil || !c.identityExists(b) {
					c.conflict("identity %s: base %s:%s undefined", key, b.Mod, b.Name)
					continue
				}
				bk := bm.Owner() + ":" + b.Name
				children[bk] = append(children[bk], key)
			}
		}
	}
	for key := range all {
		seen := map[string]bool{}
		var rec func(k string)
		cyc := false
		rec = func(k string) {
			for _, ch := range children[k] {
				if ch == key {
					cyc = true
					continue
				}
				if !seen[ch] {
					seen[ch] = true
					rec(ch)
				}
			}
		}
		rec(key)
		if cyc {
			c.conflict("identity %s is derived from itself", key)
		}
		c.out.Identities[key] = SortedNames(seen)
	}
}

// MustReport lists the reasons why processing scenario s has to report at
// least one error, as far as the reference model can tell: the conflicts found
// by the reference compilation plus the error-carrying constructs the
// generator injects that need no compilation to spot (bad range, bad config
// value).  It is computed from the scenario itself, so it stays right while a
// failing case is being minimised.
func MustReport(s *Scenario) []string { return MustReportWith(s, false) }

// MustReportWith is MustReport under the ignore-not-supported option (a later
// deviation of a node that not-supported would have removed then applies).
func MustReportWith(s *Scenario, ignoreNotSupported bool) []string {
	out := append([]string(nil), CompileWith(s, ignoreNotSupported).Conflicts...)
	var doType func(t *Type)
	doType = func(t *Type) {
		if t == nil {
			return
		}
		switch t.Range {
		case "10..1":
			out = append(out, "range boundaries out of order")
		case "1000..max", "min..1000":
			// (written only on types that have no range for min / max to denote)
			out = append(out, "range "+t.Range+" on a type without a range")
		case "300", "-200..5", "1..5|20..30|400", "1..5|20..30":
			// (the generator writes these only where the base does not allow them)
			out = append(out, "range "+t.Range+" not within the base type's range")
		}
		if t.Length == "5..2" {
			out = append(out, "length boundaries out of order")
		}
		for _, u := range t.Union {
			doType(u)
		}
	}
	var doBody func(body []*Node)
	var doGrouping func(g *Grouping)
	doBody = func(body []*Node) {
		for _, n := range body {
			doType(n.Type)
			if n.Config != "" && n.Config != "true" && n.Config != "false" {
				out = append(out, "invalid config value "+n.Config)
			}
			for _, td := range n.Typedefs {
				doType(td.Type)
			}
			for _, g := range n.Groupings {
				doGrouping(g)
			}
			doBody(n.Kids)
		}
	}
	doGrouping = func(g *Grouping) {
		for _, td := range g.Typedefs {
			doType(td.Type)
		}
		for _, x := range g.Groupings {
			doGrouping(x)
		}
		doBody(g.Body)
	}
	for _, m := range s.Mods {
		for _, td := range m.Typedefs {
			doType(td.Type)
		}
		for _, g := range m.Groupings {
			doGrouping(g)
		}
		doBody(m.Body)
		for _, a := range m.Augments {
			doBody(a.Body)
		}
	}
	// duplicates inside groupings nobody uses: goyang converts every grouping,
	// the reference compilation only expands what is used
	{
		gc := &compiler{s: s, out: &Compiled{Trees: map[string]*XNode{}, Identities: map[string][]string{}}, conflicts: map[string]bool{}}
		var standalone func(m *Mod, g *Grouping)
		var inNodes func(m *Mod, body []*Node)
		standalone = func(m *Mod, g *Grouping) {
			tmp := &XNode{Name: g.Name, Kind: "grouping", Kids: map[string]*XNode{}}
			gc.gstack = []*Grouping{g}
			gc.addBody(tmp, m, g.Body)
			gc.gstack = nil
			for _, x := range g.Groupings {
				standalone(m, x)
			}
			inNodes(m, g.Body)
		}
		inNodes = func(m *Mod, body []*Node) {
			for _, n := range body {
				for _, g := range n.Groupings {
					standalone(m, g)
				}
				inNodes(m, n.Kids)
			}
		}
		for _, m := range s.Mods {
			for _, g := range m.Groupings {
				standalone(m, g)
			}
			inNodes(m, m.Body)
			for _, a := range m.Augments {
				inNodes(m, a.Body)
			}
		}
		for _, msg := range gc.out.Conflicts {
			if strings.HasPrefix(msg, "duplicate ") {
				out = append(out, "in a grouping: "+msg)
			}
		}
	}
	// uses cycles anywhere (also among groupings nobody uses)
	{
		type gkey struct{ mod, name, scope string }
		edges := map[gkey][]gkey{}
		var collect func(owner gkey, body []*Node)
		var visitG func(mod string, g *Grouping, scope string)
		collect = func(owner gkey, body []*Node) {
			for _, n := range body {
				if n.Kind == KUses && n.Uses != nil {
					edges[owner] = append(edges[owner], gkey{n.Uses.Mod, n.Uses.Name, n.Uses.Scope})
				}
				for _, g := range n.Groupings {
					visitG(owner.mod, g, n.Name)
				}
				collect(owner, n.Kids)
			}
		}
		visitG = func(mod string, g *Grouping, scope string) {
			k := gkey{mod, g.Name, scope}
			for _, x := range g.Groupings {
				visitG(mod, x, "")
			}
			collect(k, g.Body)
		}
		for _, m := range s.Mods {
			for _, g := range m.Groupings {
				visitG(m.Name, g, "")
			}
			var inBody func(body []*Node)
			inBody = func(body []*Node) {
				for _, n := range body {
					for _, g := range n.Groupings {
						visitG(m.Name, g, n.Name)
					}
					inBody(n.Kids)
				}
			}
			inBody(m.Body)
		}
		state := map[gkey]int{}
		var dfs func(k gkey) bool
		dfs = func(k gkey) bool {
			switch state[k] {
			case 1:
				return true
			case 2:
				return false
			}
			state[k] = 1
			for _, e := range edges[k] {
				if dfs(e) {
					return true
				}
			}
			state[k] = 2
			return false
		}
		for k := range edges {
			if dfs(k) {
				out = append(out, "grouping "+k.name+" uses itself (cycle in the uses graph)")
				break
			}
		}
	}
	// dangling references anywhere, also in groupings nobody uses (the
	// reference compilation only expands what is used)
	seen := map[string]bool{}
	for _, c := range out {
		seen[c] = true
	}
	add := func(msg string) {
		if !seen[msg] {
			seen[msg] = true
			out = append(out, msg)
		}
	}
	var refType func(t *Type, depth int)
	refType = func(t *Type, depth int) {
		if t == nil || depth > 60 {
			return
		}
		if t.Ref.Mod != "" {
			td := FindTypedef(s, t.Ref)
			if td == nil {
				add("unknown typedef " + t.Ref.Mod + ":" + t.Ref.Name)
			}
		} else if !builtinKinds[t.Ref.Name] {
			add("unknown built-in type " + t.Ref.Name)
		}
		if t.Base != nil {
			ok := false
			if bm := s.Mod(t.Base.Mod); bm != nil {
				for _, id := range bm.Identities {
					if id.Name == t.Base.Name {
						ok = true
					}
				}
			}
			if !ok {
				add("identityref base " + t.Base.Mod + ":" + t.Base.Name + " undefined")
			}
		}
		for _, u := range t.Union {
			refType(u, depth+1)
		}
	}
	var refBody func(body []*Node)
	var refGrouping func(g *Grouping)
	refBody = func(body []*Node) {
		for _, n := range body {
			if n.Kind == KUses && n.Uses != nil {
				if g, _ := FindGrouping(s, *n.Uses); g == nil {
					add("uses of unknown grouping " + n.Uses.Mod + ":" + n.Uses.Name)
				}
			}
			refType(n.Type, 0)
			for _, td := range n.Typedefs {
				refType(td.Type, 0)
			}
			for _, g := range n.Groupings {
				refGrouping(g)
			}
			refBody(n.Kids)
		}
	}
	refGrouping = func(g *Grouping) {
		for _, td := range g.Typedefs {
			refType(td.Type, 0)
		}
		for _, x := range g.Groupings {
			refGrouping(x)
		}
		refBody(g.Body)
	}
	for _, m := range s.Mods {
		for _, td := range m.Typedefs {
			refType(td.Type, 0)
		}
		for _, g := range m.Groupings {
			refGrouping(g)
		}
		refBody(m.Body)
		for _, a := range m.Augments {
			refBody(a.Body)
		}
		for _, d := range m.Deviations {
			for _, dv := range d.Deviates {
				refType(dv.Type, 0)
			}
		}
	}
	return out
}
