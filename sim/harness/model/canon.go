package model

import (
	"fmt"
	"sort"
	"strings"
)

// CanonOpts selects what the canonical text of an expected / observed tree shows.
type CanonOpts struct {
	// NSOf maps a module name to its namespace URI (reference trees carry
	// module names, observed trees carry URIs; both print the URI).
	NSOf map[string]string
	// NoDesc drops descriptions (input/output cannot carry one in goyang).
	NoDesc bool
	// NoRO drops the inherited read-only flag (own properties only).
	NoRO bool
}

// TypeSig renders a resolved type.
func TypeSig(t *XType) string {
	if t == nil {
		return "-"
	}
	var sb strings.Builder
	fmt.Fprintf(&sb, "%s(%s)", t.Name, t.Kind)
	if t.HasDefault {
		fmt.Fprintf(&sb, " tdefault=%q", t.Default)
	}
	if t.Units != "" {
		fmt.Fprintf(&sb, " tunits=%q", t.Units)
	}
	if t.Base != "" {
		fmt.Fprintf(&sb, " base=%s", t.Base)
	}
	if len(t.Enums) > 0 {
		fmt.Fprintf(&sb, " enums=%s", strings.Join(t.Enums, ","))
	}
	if len(t.Bits) > 0 {
		fmt.Fprintf(&sb, " bits=%s", strings.Join(t.Bits, ","))
	}
	if t.Path != "" {
		fmt.Fprintf(&sb, " path=%q", t.Path)
	}
	if t.Frac != 0 {
		fmt.Fprintf(&sb, " frac=%d", t.Frac)
	}
	if t.Patterns != 0 {
		fmt.Fprintf(&sb, " patterns=%d", t.Patterns)
	}
	if t.Posix != 0 {
		fmt.Fprintf(&sb, " posix=%d", t.Posix)
	}
	if len(t.Union) > 0 {
		// The library drops a member that equals an earlier one, where "equal"
		// ignores the type's name and the members of a bits type (documented in
		// YangType.Equal): members are compared as a set of name-less signatures.
		set := map[string]bool{}
		for _, u := range t.Union {
			m := *u
			m.Name = ""
			m.Bits = nil
			set[TypeSig(&m)] = true
		}
		sb.WriteString(" union{" + strings.Join(SortedNames(set), " | ") + "}")
	}
	return sb.String()
}

// ReadOnly computes config inheritance on an expected tree the way the
// property states it: nearest explicit config on the path wins, anything in an
// rpc/action output is read-only, default read-write.
func (x *XNode) ReadOnly() bool {
	for p := x; p != nil; p = p.Parent {
		if p.Kind == KOutput {
			return true
		}
		if p.Config == "true" {
			return false
		}
		if p.Config == "false" {
			return true
		}
	}
	return false
}

// NSModResolved walks up to the nearest node that carries a namespace owner.
func (x *XNode) NSModResolved() string {
	for p := x; p != nil; p = p.Parent {
		if p.NSMod != "" {
			return p.NSMod
		}
	}
	return ""
}

// Line renders one node (without children).
func (x *XNode) Line(o CanonOpts, ns string, ro bool) string {
	var sb strings.Builder
	fmt.Fprintf(&sb, "%s %s", x.Kind, x.Name)
	if x.Implicit {
		// namespace of an implicit case around an augmented member is not compared
		sb.WriteString(" ns=-")
	} else {
		fmt.Fprintf(&sb, " ns=%s", ns)
	}
	if x.Config != "" {
		fmt.Fprintf(&sb, " config=%s", x.Config)
	}
	if ro {
		sb.WriteString(" RO")
	}
	if x.Mandatory != "" {
		fmt.Fprintf(&sb, " mandatory=%s", x.Mandatory)
	}
	if len(x.Default) > 0 {
		fmt.Fprintf(&sb, " default=%q", x.Default)
	}
	if x.Units != "" {
		fmt.Fprintf(&sb, " units=%q", x.Units)
	}
	if x.Key != "" {
		fmt.Fprintf(&sb, " key=%q", x.Key)
	}
	if x.HasList {
		fmt.Fprintf(&sb, " min=%d max=%d", x.Min, x.Max)
		if x.ByUser {
			sb.WriteString(" by-user")
		}
	}
	if x.Type != nil {
		fmt.Fprintf(&sb, " type=%s", TypeSig(x.Type))
	}
	if len(x.Exts) > 0 {
		set := map[string]bool{}
		for _, a := range x.Exts {
			set[a] = true
		}
		fmt.Fprintf(&sb, " exts=%s", strings.Join(SortedNames(set), ","))
	}
	if !o.NoDesc && x.Desc != "" {
		fmt.Fprintf(&sb, " desc=%q", x.Desc)
	}
	return sb.String()
}

// Canon renders a whole tree, children in name order, one node per line, each
// line prefixed by the node's path so that a diff names the place.
func Canon(root *XNode, o CanonOpts) []string {
	var out []string
	var rec func(x *XNode, path string, ns string)
	rec = func(x *XNode, path string, ns string) {
		if x.NSMod != "" {
			ns = x.NSMod
		}
		uri := ns
		if o.NSOf != nil {
			if u, ok := o.NSOf[ns]; ok {
				uri = u
			}
		}
		p := path + "/" + x.Name
		ro := x.ReadOnly()
		if x.ObsRO != nil {
			ro = *x.ObsRO
		}
		if o.NoRO {
			ro = false
		}
		line := x.Line(o, uri, ro)
		if !x.Implicit {
			inst := ns
			if x.ObsInst != "" {
				inst = x.ObsInst
			}
			line += " inst=" + inst
		}
		out = append(out, p+": "+line)
		if x.Input != nil {
			rec(x.Input, p, ns)
		}
		if x.Output != nil {
			rec(x.Output, p, ns)
		}
		for _, name := range sortedKids(x.Kids) {
			rec(x.Kids[name], p, ns)
		}
	}
	for _, name := range sortedKids(root.Kids) {
		rec(root.Kids[name], "", root.NSMod)
	}
	return out
}

// Subtree renders the tree below x (x included) with paths relative to x.
func Subtree(x *XNode, o CanonOpts) []string {
	tmp := &XNode{Kind: "root", NSMod: x.NSModResolved(), Kids: map[string]*XNode{x.Name: x}}
	saved := x.Parent
	// ReadOnly must still see the real ancestors: keep Parent as is.
	_ = saved
	return Canon(tmp, o)
}

// DiffLines describes the first differences between two canonical renderings.
func DiffLines(want, got []string, max int) string {
	w := map[string]bool{}
	g := map[string]bool{}
	for _, l := range want {
		w[l] = true
	}
	for _, l := range got {
		g[l] = true
	}
	var sb strings.Builder
	n := 0
	var missing, extra []string
	for _, l := range want {
		if !g[l] {
			missing = append(missing, l)
		}
	}
	for _, l := range got {
		if !w[l] {
			extra = append(extra, l)
		}
	}
	sort.Strings(missing)
	sort.Strings(extra)
	for _, l := range missing {
		if n >= max {
			break
		}
		fmt.Fprintf(&sb, "  expected but absent: %s\n", l)
		n++
	}
	for _, l := range extra {
		if n >= 2*max {
			break
		}
		fmt.Fprintf(&sb, "  present but not expected: %s\n", l)
		n++
	}
	if n == 0 && len(want) != len(got) {
		fmt.Fprintf(&sb, "  same line sets but %d vs %d lines (a node occurs twice)\n", len(want), len(got))
	}
	return sb.String()
}
