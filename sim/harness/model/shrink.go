package model

// ShrinkScenario proposes structurally simpler variants of s, most aggressive
// first.  Every candidate is a fresh deep copy.
func ShrinkScenario(s *Scenario) []*Scenario {
	var out []*Scenario
	edit := func(f func(c *Scenario)) {
		c := s.Clone()
		f(c)
		out = append(out, c)
	}
	// drop a whole module
	if len(s.Mods) > 1 {
		for i := range s.Mods {
			i := i
			edit(func(c *Scenario) {
				name := c.Mods[i].Name
				c.Mods = append(c.Mods[:i], c.Mods[i+1:]...)
				for _, m := range c.Mods {
					var inc []*Include
					for _, x := range m.Includes {
						if x.Sub != name {
							inc = append(inc, x)
						}
					}
					m.Includes = inc
				}
			})
		}
	}
	for _, m := range s.Mods {
		if m.OwnPrefix != 0 {
			edit(func(c *Scenario) {
				for _, x := range c.Mods {
					x.OwnPrefix = 0
				}
			})
			break
		}
	}
	for mi, m := range s.Mods {
		mi := mi
		for i := range m.Augments {
			i := i
			edit(func(c *Scenario) { x := c.Mods[mi]; x.Augments = append(x.Augments[:i], x.Augments[i+1:]...) })
		}
		for i := range m.Deviations {
			i := i
			edit(func(c *Scenario) { x := c.Mods[mi]; x.Deviations = append(x.Deviations[:i], x.Deviations[i+1:]...) })
		}
		for i, d := range m.Deviations {
			i := i
			if len(d.Deviates) > 1 {
				for j := range d.Deviates {
					j := j
					edit(func(c *Scenario) {
						x := c.Mods[mi].Deviations[i]
						x.Deviates = append(x.Deviates[:j], x.Deviates[j+1:]...)
					})
				}
			}
		}
		for i := range m.Groupings {
			i := i
			edit(func(c *Scenario) { x := c.Mods[mi]; x.Groupings = append(x.Groupings[:i], x.Groupings[i+1:]...) })
		}
		for i := range m.Identities {
			i := i
			edit(func(c *Scenario) { x := c.Mods[mi]; x.Identities = append(x.Identities[:i], x.Identities[i+1:]...) })
		}
		for i, id := range m.Identities {
			i := i
			for j := range id.Bases {
				j := j
				edit(func(c *Scenario) {
					x := c.Mods[mi].Identities[i]
					x.Bases = append(x.Bases[:j], x.Bases[j+1:]...)
				})
			}
		}
		for i := range m.Typedefs {
			i := i
			edit(func(c *Scenario) { x := c.Mods[mi]; x.Typedefs = append(x.Typedefs[:i], x.Typedefs[i+1:]...) })
		}
		for i := range m.Includes {
			i := i
			edit(func(c *Scenario) { x := c.Mods[mi]; x.Includes = append(x.Includes[:i], x.Includes[i+1:]...) })
		}
		if len(m.Revs) > 0 {
			edit(func(c *Scenario) { c.Mods[mi].Revs = nil })
		}
		if m.Raw != "" {
			edit(func(c *Scenario) { c.Mods[mi].Raw = "" })
		}
	}
	// drop / simplify single nodes anywhere: address a node by (module, list selector, index path)
	type loc struct {
		mi   int
		sel  string // body | aug<i> | grp<path>
		path []int
	}
	var locs []loc
	var walk func(mi int, sel string, body []*Node, prefix []int)
	walk = func(mi int, sel string, body []*Node, prefix []int) {
		for i, n := range body {
			p := append(append([]int(nil), prefix...), i)
			locs = append(locs, loc{mi, sel, p})
			walk(mi, sel, n.Kids, p)
		}
	}
	for mi, m := range s.Mods {
		walk(mi, "body", m.Body, nil)
		for ai, a := range m.Augments {
			walk(mi, sel2("aug", ai), a.Body, nil)
		}
		for gi, g := range m.Groupings {
			walk(mi, sel2("grp", gi), g.Body, nil)
		}
	}
	getList := func(c *Scenario, l loc) *[]*Node {
		m := c.Mods[l.mi]
		var list *[]*Node
		switch {
		case l.sel == "body":
			list = &m.Body
		case len(l.sel) > 3 && l.sel[:3] == "aug":
			list = &m.Augments[atoi(l.sel[3:])].Body
		default:
			list = &m.Groupings[atoi(l.sel[3:])].Body
		}
		for _, i := range l.path[:len(l.path)-1] {
			list = &(*list)[i].Kids
		}
		return list
	}
	for _, l := range locs {
		l := l
		edit(func(c *Scenario) {
			list := getList(c, l)
			i := l.path[len(l.path)-1]
			*list = append((*list)[:i], (*list)[i+1:]...)
		})
	}
	for _, l := range locs {
		l := l
		// simplify attributes
		edit(func(c *Scenario) {
			list := getList(c, l)
			n := (*list)[l.path[len(l.path)-1]]
			n.Config, n.Mandatory, n.Default, n.Units, n.Desc, n.When, n.Ext, n.Min, n.Max, n.OrderedBy = "", "", nil, "", "", "", "", "", "", ""
			n.Typedefs, n.Groupings = nil, nil
			if n.Type != nil {
				n.Type = &Type{Ref: Ref{Mod: "", Name: "string"}}
			}
		})
	}
	return out
}

func sel2(p string, i int) string { return p + itoa(i) }

func itoa(i int) string {
	if i == 0 {
		return "0"
	}
	s := ""
	for i > 0 {
		s = string(rune('0'+i%10)) + s
		i /= 10
	}
	return s
}

func atoi(s string) int {
	n := 0
	for _, c := range s {
		n = n*10 + int(c-'0')
	}
	return n
}
