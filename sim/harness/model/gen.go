package model

import (
	"encoding/json"
	"fmt"
	"strings"

	"github.com/openconfig/goyang/zzverif/tape"
)

// Profile steers the workload generator.  Each driver uses a profile that
// concentrates on the statements its property is about; swarm knobs are drawn
// per run inside the given ranges.
type Profile struct {
	Mods       [2]int // number of modules
	Subs       [2]int // number of submodules (spread over the modules)
	Typedefs   [2]int // per module
	Identities [2]int // per module
	Groupings  [2]int // per module
	TopNodes   [2]int // top-level data nodes per module
	Augments   [2]int // per scenario
	Deviations [2]int // per scenario (placed in dedicated deviating modules)
	DevMods    [2]int // number of deviating modules
	Depth      int
	Revisions  bool
	// Invalid lists the invalid constructs that may be injected (at most
	// MaxInvalid per scenario, each with probability InvalidPct).
	Invalid    []string
	InvalidPct int
	MaxInvalid int
	// OrderTraps enables valid-but-order-sensitive constructs: same-named
	// identities in several modules, several deviate statements per deviation,
	// augment chains written in reverse dependency order.
	OrderTraps bool
	// NoRPC etc. switch statement kinds off.
	NoRPC, NoChoice, NoNotif, NoAny bool
	// UsesHeavy biases bodies towards uses statements.
	UsesHeavy bool
	// Extras enables when/extension/description statements (which end up in Extra/Exts).
	Extras bool
	// Posix: string types may carry openconfig-extensions:posix-pattern
	// statements (the scenario then includes a module of that name).
	Posix bool
	// LateAugments: augment targets may lie below the implicit case of a
	// shorthand choice member (their path exists only after the library has
	// inserted the implicit cases; outside C07's claim, the reference model
	// reports such an augment as not found).  Used by C04 only.
	LateAugments bool
	// PrefixTraps: modules may declare equal own prefixes and import other
	// modules under arbitrary (per importer unique) prefixes, so that one prefix
	// string means different modules in different texts.
	PrefixTraps bool
	// CrossDeviationTrap: two deviating modules may deviate the same property of
	// the same node (valid, but the outcome is only defined if the library
	// applies deviating modules in a fixed order); never used together with the
	// reference comparison.
	CrossDeviationTrap bool
	// NoTypedefs: the scenario holds no typedef statement at all (a set
	// without typedefs takes its own paths through type resolution).
	NoTypedefs bool
}

// Kinds of invalid construct the generator can inject.
const (
	InvAugMissing      = "aug-missing-target"
	InvAugLeaf         = "aug-leaf-target"
	InvAugCollision    = "aug-collision"
	InvAugCollisionOwn = "aug-collision-existing"
	// InvAugRelative: a top-level augment whose path lacks the leading "/" and
	// whose body holds a node named like the path's first step (a lookup
	// relative to the augment itself would find that).  NOT part of any
	// profile: goyang deliberately resolves relative augment paths from the
	// augment's own entry (its suite has `augment "../alpha"`), so demanding
	// an error here would demand more than C07 states.
	InvAugRelative = "aug-relative-path"
	// InvAugBadPrefix: one step after the first is written with a prefix the
	// text declares nowhere: the path names nothing.
	InvAugBadPrefix = "aug-undeclared-prefix"
	InvUsesCycle       = "uses-cycle"
	InvTypedefCycle    = "typedef-cycle"
	InvIdentityCycle   = "identity-cycle"
	InvUnknownType     = "unknown-type"
	InvUnknownGrouping = "unknown-grouping"
	InvUndefinedBase   = "undefined-base"
	InvDupSibling      = "dup-sibling"
	// InvDupUses: the same (non-empty) grouping used twice in one place: every
	// node arrives twice, from one and the same definition.
	InvDupUses        = "dup-uses"
	InvBadRange       = "bad-range"
	InvBadConfig      = "bad-config-value"
	InvDevMissing     = "dev-missing-target"
	InvDevAddDefault  = "dev-add-existing-default"
	InvDevDelDefault  = "dev-delete-absent-default"
	InvDevDelOther    = "dev-delete-different-default"
	InvDevMinNonList  = "dev-min-on-non-list"
	InvDevDelMin      = "dev-delete-different-min"
	InvDevBadType     = "dev-unresolvable-type"
	InvDevUnknownKind = "dev-unknown-kind"
	// InvDevGone: a later deviation of the same module names a node (or a node
	// below one) that an earlier deviation of that module removed.
	InvDevGone = "dev-target-removed-earlier"
	// InvDevDoubleNS: deviate not-supported written twice in one deviation; the
	// second one has nothing left to remove.
	InvDevDoubleNS = "dev-not-supported-twice"
	// InvDevBadPrefix: a step after the first under a prefix declared nowhere.
	InvDevBadPrefix = "dev-undeclared-prefix"
	// InvFanoutChain: an unresolvable typedef below a chain of typedefs each of
	// which is a union of two references to the level below: resolution work
	// must stay polynomial (a hang is a C01 violation).
	InvFanoutChain = "typedef-fanout-over-unresolvable-base"
)

type gen struct {
	t   *tape.Tape
	p   Profile
	s   *Scenario
	ctr int
	// definitions visible by module index
	mods    []*Mod // modules (not submodules), in index order
	subsOf  map[string][]*Mod
	invalid int
	// Injected records what was injected on purpose.
	injected []string
	// groupings that are complete but not yet attached to their module
	pendingGroupings map[Ref]*Grouping
	topExpanded      map[string]map[Ref]bool
	// gsize is the number of nodes a grouping expands to (uses unfolded); it
	// keeps nested uses from multiplying into trees of millions of nodes.
	gsize map[Ref]int
}

// Generated bundles a scenario with what the generator knows about it.
type Generated struct {
	S *Scenario
	// Injected lists the invalid constructs placed on purpose.
	Injected []string
}

func (g *gen) id(prefix string) string {
	g.ctr++
	return fmt.Sprintf("%s%d", prefix, g.ctr)
}

func (g *gen) rng(r [2]int) int { return g.t.Range(r[0], r[1]) }

func (g *gen) wantInvalid(kind string) bool {
	if g.invalid >= g.p.MaxInvalid {
		return false
	}
	if g.p.NoTypedefs && (kind == InvTypedefCycle || kind == InvFanoutChain) {
		return false
	}
	ok := false
	for _, k := range g.p.Invalid {
		if k == kind {
			ok = true
		}
	}
	if !ok || !g.t.Chance(g.p.InvalidPct, 100) {
		return false
	}
	g.invalid++
	g.injected = append(g.injected, kind)
	return true
}

// Generate draws a scenario.
func Generate(t *tape.Tape, p Profile) *Generated {
	g := &gen{t: t, p: p, s: &Scenario{}, subsOf: map[string][]*Mod{}, pendingGroupings: map[Ref]*Grouping{}, topExpanded: map[string]map[Ref]bool{}, gsize: map[Ref]int{}}
	nm := g.rng(p.Mods)
	for i := 0; i < nm; i++ {
		m := &Mod{Name: fmt.Sprintf("m%d", i), Prefix: fmt.Sprintf("p%d", i), NS: fmt.Sprintf("urn:m%d", i)}
		if p.PrefixTraps && t.Chance(1, 2) {
			m.Prefix = []string{"p", "q", "x"}[t.Intn(3)]
		}
		if p.Revisions && t.Chance(1, 2) {
			for k := t.Range(1, 2); k > 0; k-- {
				m.Revs = append(m.Revs, fmt.Sprintf("20%02d-%02d-%02d", t.Range(10, 24), t.Range(1, 12), t.Range(1, 28)))
			}
		}
		if t.Chance(1, 3) {
			m.YangVersion = "1.1"
		}
		g.mods = append(g.mods, m)
		g.s.Mods = append(g.s.Mods, m)
	}
	ns := g.rng(p.Subs)
	for i := 0; i < ns; i++ {
		owner := g.mods[t.Intn(len(g.mods))]
		sub := &Mod{Name: fmt.Sprintf("s%d", i), BelongsTo: owner.Name, Prefix: owner.Prefix}
		if p.Revisions && t.Chance(1, 3) {
			sub.Revs = append(sub.Revs, fmt.Sprintf("20%02d-%02d-%02d", t.Range(10, 24), t.Range(1, 12), t.Range(1, 28)))
		}
		// nested include of an earlier sibling
		if sibs := g.subsOf[owner.Name]; len(sibs) > 0 && t.Chance(1, 3) {
			sub.Includes = append(sub.Includes, &Include{Sub: sibs[t.Intn(len(sibs))].Name})
		}
		g.subsOf[owner.Name] = append(g.subsOf[owner.Name], sub)
		owner.Includes = append(owner.Includes, &Include{Sub: sub.Name})
		g.s.Mods = append(g.s.Mods, sub)
	}
	// definitions first (so that bodies can refer to them), lower modules first
	for i, m := range g.mods {
		for _, sub := range g.subsOf[m.Name] {
			g.defs(i, sub)
		}
		g.defs(i, m)
	}
	for i, m := range g.mods {
		for _, sub := range g.subsOf[m.Name] {
			g.fillBody(i, sub)
		}
		g.fillBody(i, m)
	}
	g.augments()
	g.deviations()
	g.injectLate()
	g.assignImportPrefixes()
	if g.p.Posix && usesPosix(g.s) {
		g.s.Mods = append(g.s.Mods, NewPosixModule())
	}
	// some texts write references to their own definitions with the own prefix
	ot := t.Sub("ownprefix")
	for _, m := range g.s.Mods {
		if ot.Chance(1, 3) {
			m.OwnPrefix = ot.Uint64() | 1
		}
	}
	return &Generated{S: g.s, Injected: g.injected}
}

// assignImportPrefixes gives every import a prefix that is unique within the
// importing text: by default the imported module's own prefix, an alias when
// that collides with the importer's own prefix or another import (or, with
// PrefixTraps, sometimes an arbitrary alias from a small pool).
func (g *gen) assignImportPrefixes() {
	t := g.t.Sub("import-prefixes")
	for _, m := range g.s.Mods {
		used := map[string]bool{m.Prefix: true}
		for _, imp := range Imports(g.s, m) {
			x := g.s.Mod(imp)
			want := imp
			if x != nil {
				want = x.Prefix
			}
			if g.p.PrefixTraps && t.Chance(1, 3) {
				want = []string{"p", "q", "x", "y"}[t.Intn(4)]
			}
			for n := 0; used[want]; n++ {
				want = fmt.Sprintf("ix%d", n)
			}
			used[want] = true
			if x == nil || want != x.Prefix {
				if m.ImportAs == nil {
					m.ImportAs = map[string]string{}
				}
				m.ImportAs[imp] = want
			}
		}
	}
}

// texts in which module (index mi, module or submodule m) may refer to:
type visible struct {
	typedefs  []Ref
	groupings []Ref
	idents    []Ref
}

// visibleFrom lists the definitions text in m (module index mi) may refer to.
func (g *gen) visibleFrom(mi int, m *Mod) visible {
	var v visible
	addMod := func(x *Mod, foreign bool) {
		for _, td := range x.Typedefs {
			v.typedefs = append(v.typedefs, Ref{Mod: x.Name, Name: td.Name})
		}
		for _, gr := range x.Groupings {
			v.groupings = append(v.groupings, Ref{Mod: x.Name, Name: gr.Name})
		}
		for _, id := range x.Identities {
			v.idents = append(v.idents, Ref{Mod: x.Name, Name: id.Name})
		}
	}
	addMod(m, false)
	// included submodules (direct includes only)
	for _, inc := range m.Includes {
		if sub := g.s.Mod(inc.Sub); sub != nil {
			addMod(sub, false)
		}
	}
	// lower-indexed foreign modules: module-level typedefs, groupings and identities
	for j := 0; j < mi; j++ {
		x := g.mods[j]
		addMod(x, true)
		for _, sub := range g.subsOf[x.Name] {
			for _, gr := range sub.Groupings {
				v.groupings = append(v.groupings, Ref{Mod: sub.Name, Name: gr.Name})
			}
			for _, id := range sub.Identities {
				v.idents = append(v.idents, Ref{Mod: sub.Name, Name: id.Name})
			}
		}
	}
	// a submodule's identities are hoisted to the owner, so the owner module
	// and sibling submodules may use them as bases as well
	if !m.IsSub() {
		for _, sub := range g.subsOf[m.Name] {
			included := false
			for _, inc := range m.Includes {
				if inc.Sub == sub.Name {
					included = true
				}
			}
			if !included {
				for _, id := range sub.Identities {
					v.idents = append(v.idents, Ref{Mod: sub.Name, Name: id.Name})
				}
			}
		}
	}
	return v
}

func (g *gen) defs(mi int, m *Mod) {
	t := g.t
	for k := g.rng(g.p.Identities); k > 0; k-- {
		v := g.visibleFrom(mi, m)
		id := &Identity{Name: g.id("i")}
		nb := t.Weighted(3, 5, 2, 1)
		used := map[Ref]bool{}
		for b := 0; b < nb && len(v.idents) > 0; b++ {
			r := v.idents[t.Intn(len(v.idents))]
			if !used[r] {
				used[r] = true
				id.Bases = append(id.Bases, r)
			}
		}
		m.Identities = append(m.Identities, id)
	}
	for k := g.rng(g.p.Typedefs); k > 0 && !g.p.NoTypedefs; k-- {
		v := g.visibleFrom(mi, m)
		td := &Typedef{Name: g.id("t"), Type: g.typ(v, nil, 0)}
		if t.Chance(1, 3) {
			td.Default = g.defaultFor(td.Type)
		}
		if t.Chance(1, 4) {
			td.Units = g.id("u")
		}
		m.Typedefs = append(m.Typedefs, td)
	}
	if g.p.Extras && !g.p.NoTypedefs && t.Chance(1, 8) {
		// a string typedef with three patterns and two types refining it with one more each
		base := &Typedef{Name: g.id("t"), Type: &Type{Ref: Ref{Mod: "", Name: "string"}, Patterns: []string{"a.*", "b.*", ".*c"}}}
		d1 := &Typedef{Name: g.id("t"), Type: &Type{Ref: Ref{Mod: m.Name, Name: base.Name}, Patterns: []string{g.id("q") + ".*"}}}
		d2 := &Typedef{Name: g.id("t"), Type: &Type{Ref: Ref{Mod: m.Name, Name: base.Name}, Patterns: []string{g.id("q") + ".*"}}}
		if g.p.Posix {
			base.Type.Posix = []string{"^a.*$", "^b.*$"}
			d1.Type.Posix = []string{"^" + g.id("q") + ".*$"}
		}
		m.Typedefs = append(m.Typedefs, base, d1, d2)
	}
	for k := g.rng(g.p.Groupings); k > 0; k-- {
		v := g.visibleFrom(mi, m)
		gr := &Grouping{Name: g.id("g")}
		if !g.p.NoTypedefs && t.Chance(1, 4) {
			gr.Typedefs = append(gr.Typedefs, &Typedef{Name: g.id("t"), Type: g.typ(v, nil, 0)})
		}
		sc := &scope{v: v}
		for _, td := range gr.Typedefs {
			sc.localTypedefs = append(sc.localTypedefs, Ref{Mod: m.Name, Name: td.Name})
		}
		if t.Chance(1, 5) {
			inner := &Grouping{Name: g.id("g")}
			inner.Body = g.body(mi, m, sc, "grouping", g.p.Depth-1, t.Range(1, 2))
			gr.Groupings = append(gr.Groupings, inner)
			g.pendingGroupings[Ref{Mod: m.Name, Name: inner.Name}] = inner
			g.gsize[Ref{Mod: m.Name, Name: inner.Name}] = g.expandedSize(inner.Body)
			sc.localGroupings = append(sc.localGroupings, Ref{Mod: m.Name, Name: inner.Name})
		}
		gr.Body = g.body(mi, m, sc, "grouping", g.p.Depth, t.Range(1, 4))
		m.Groupings = append(m.Groupings, gr)
		g.gsize[Ref{Mod: m.Name, Name: gr.Name}] = g.expandedSize(gr.Body)
	}
}

type scope struct {
	v              visible
	localTypedefs  []Ref
	localGroupings []Ref
	underOp        bool // inside rpc/action/notification
	noConfig       bool
}

func (sc *scope) child() *scope {
	n := *sc
	n.localTypedefs = append([]Ref(nil), sc.localTypedefs...)
	n.localGroupings = append([]Ref(nil), sc.localGroupings...)
	return &n
}

func (g *gen) fillBody(mi int, m *Mod) {
	sc := &scope{v: g.visibleFrom(mi, m)}
	m.Body = g.body(mi, m, sc, "module", g.p.Depth, g.rng(g.p.TopNodes))
}

var simpleTypes = []string{"string", "int8", "int32", "uint16", "uint64", "boolean", "empty", "binary", "int64"}

func (g *gen) defaultFor(ty *Type) string {
	switch ty.Ref.Name {
	case "int8", "int32", "uint16", "uint64", "int64", "uint8":
		return fmt.Sprintf("%d", g.t.Range(1, 9))
	case "boolean":
		return "true"
	}
	if len(ty.Enums) > 0 {
		return ty.Enums[0].Name
	}
	return g.id("d")
}

func (g *gen) typ(v visible, sc *scope, depth int) *Type {
	t := g.t
	var tds []Ref
	tds = append(tds, v.typedefs...)
	if sc != nil {
		tds = append(tds, sc.localTypedefs...)
	}
	w := []int{6, 2, 2, 2, 1, 1, 1, 1, 0, 0}
	if len(tds) > 0 {
		w[8] = 6
	}
	if len(v.idents) > 0 {
		w[9] = 3
	}
	if depth > 0 {
		w[5] = 0 // no nested unions
	}
	switch t.Weighted(w...) {
	case 0:
		return &Type{Ref: Ref{Mod: "", Name: simpleTypes[t.Intn(len(simpleTypes))]}}
	case 1:
		lo := t.Range(0, 50)
		ty := &Type{Ref: Ref{Name: []string{"int32", "uint8", "int64"}[t.Intn(3)]}, Range: fmt.Sprintf("%d..%d", lo, lo+t.Range(0, 60))}
		switch t.Weighted(6, 1, 1, 1, 1) {
		case 1:
			ty.Range = fmt.Sprintf("min..%d", lo+60)
		case 2:
			ty.Range = fmt.Sprintf("%d..max", lo)
		case 3:
			ty.Range = fmt.Sprintf("%d..%d|%d..max", lo, lo+10, lo+20+t.Range(0, 30))
		case 4:
			ty.Range = fmt.Sprintf("min..%d | %d | %d..%d", lo, lo+5, lo+7, lo+60)
		}
		return ty
	case 2:
		ty := &Type{Ref: Ref{Mod: "", Name: "string"}}
		if t.Chance(1, 2) {
			ty.Length = fmt.Sprintf("%d..%d", t.Range(0, 4), t.Range(5, 40))
			switch t.Weighted(6, 1, 1, 1) {
			case 1:
				ty.Length = fmt.Sprintf("%d..max", t.Range(0, 4))
			case 2:
				ty.Length = fmt.Sprintf("min..%d", t.Range(5, 40))
			case 3:
				ty.Length = fmt.Sprintf("%d|%d..max", t.Range(0, 4), t.Range(5, 40))
			}
		}
		if t.Chance(1, 2) {
			ty.Patterns = append(ty.Patterns, []string{"[a-z]+", "[0-9]*", "a|b", ".*x.*"}[t.Intn(4)])
			if t.Chance(1, 2) {
				ty.Patterns[0] += fmt.Sprintf("%04x", t.Intn(1<<16))
			}
		}
		if g.p.Posix && t.Chance(1, 2) {
			// mostly distinct texts, so that a memo keyed by the text is cold
			ty.Posix = append(ty.Posix, fmt.Sprintf("%s%04x$", []string{"^[a-z]+", "^[0-9]*", "^(a|b)", "^.*x.*"}[t.Intn(4)], t.Intn(1<<16)))
		}
		return ty
	case 3:
		ty := &Type{Ref: Ref{Mod: "", Name: "enumeration"}}
		for k := t.Range(1, 4); k > 0; k-- {
			e := Enum{Name: g.id("e")}
			if t.Chance(1, 4) {
				v := len(ty.Enums)*10 + t.Range(0, 5)
				e.Value = &v
			}
			ty.Enums = append(ty.Enums, e)
		}
		return ty
	case 4:
		ty := &Type{Ref: Ref{Mod: "", Name: "bits"}}
		for k := t.Range(1, 3); k > 0; k-- {
			ty.Bits = append(ty.Bits, Enum{Name: g.id("b")})
		}
		return ty
	case 5:
		ty := &Type{Ref: Ref{Mod: "", Name: "union"}}
		// two identities of one name in different modules, both as identityref
		// members: the members differ only in which object their base is
		for i := range v.idents {
			for j := i + 1; j < len(v.idents); j++ {
				if v.idents[i].Name == v.idents[j].Name && v.idents[i].Mod != v.idents[j].Mod && t.Chance(1, 2) {
					a, b := v.idents[i], v.idents[j]
					ty.Union = append(ty.Union, &Type{Ref: Ref{Mod: "", Name: "identityref"}, Base: &a}, &Type{Ref: Ref{Mod: "", Name: "identityref"}, Base: &b})
					return ty
				}
			}
		}
		nk := 4
		if len(tds) > 0 {
			nk++
		}
		if len(v.idents) > 0 {
			nk++
		}
		kinds := t.Perm(nk)
		for k := 0; k < 2+t.Weighted(4, 1); k++ {
			switch kinds[k] {
			case 4, 5:
				if kinds[k] == 4 && len(tds) > 0 {
					ty.Union = append(ty.Union, &Type{Ref: tds[t.Intn(len(tds))]})
				} else {
					b := v.idents[t.Intn(len(v.idents))]
					ty.Union = append(ty.Union, &Type{Ref: Ref{Mod: "", Name: "identityref"}, Base: &b})
				}
			case 0:
				ty.Union = append(ty.Union, &Type{Ref: Ref{Mod: "", Name: "string"}})
			case 1:
				ty.Union = append(ty.Union, &Type{Ref: Ref{Mod: "", Name: "int32"}})
			case 2:
				ty.Union = append(ty.Union, &Type{Ref: Ref{Mod: "", Name: "boolean"}})
			case 3:
				e := &Type{Ref: Ref{Mod: "", Name: "enumeration"}}
				e.Enums = append(e.Enums, Enum{Name: g.id("e")})
				ty.Union = append(ty.Union, e)
			}
		}
		return ty
	case 6:
		ty := &Type{Ref: Ref{Mod: "", Name: "decimal64"}, FractionDigits: t.Range(1, 18)}
		if ty.FractionDigits <= 4 && t.Chance(1, 3) {
			ty.Range = []string{"1.5..max", "min..99.9", "-3.2..7.1|10..max"}[t.Intn(3)]
		}
		return ty
	case 7:
		return &Type{Ref: Ref{Mod: "", Name: "leafref"}, Path: "../" + g.id("x")}
	case 8:
		return &Type{Ref: tds[t.Intn(len(tds))]}
	default:
		b := v.idents[t.Intn(len(v.idents))]
		return &Type{Ref: Ref{Mod: "", Name: "identityref"}, Base: &b}
	}
}

// allowed child kinds per parent kind (only what goyang's AST accepts)
func (g *gen) kindsFor(where string, sc *scope) ([]string, []int) {
	p := g.p
	kinds := []string{KLeaf, KContainer, KList, KLeafList, KChoice, KAnyData, KAnyXML, KUses, KRPC, KAction, KNotification, KCase}
	w := map[string]int{KLeaf: 8, KContainer: 5, KList: 3, KLeafList: 2, KChoice: 2, KAnyData: 1, KAnyXML: 1, KUses: 3}
	if p.UsesHeavy {
		w[KUses] = 9
	}
	switch where {
	case "module":
		w[KRPC] = 1
		w[KNotification] = 1
	case KContainer, KList, "grouping", "augment":
		if !sc.underOp {
			w[KAction] = 1
			w[KNotification] = 1
		}
		if where == "augment" {
			w[KCase] = 0
		}
	case KChoice:
		w = map[string]int{KLeaf: 4, KContainer: 3, KList: 1, KLeafList: 1, KAnyData: 1, KAnyXML: 1, KCase: 6}
	case KCase, KInput, KOutput, KNotification:
		// data nodes and uses only
	}
	if where == KList || where == "grouping" && false {
	}
	if p.NoRPC {
		w[KRPC], w[KAction] = 0, 0
	}
	if p.NoChoice {
		w[KChoice] = 0
	}
	if p.NoNotif {
		w[KNotification] = 0
	}
	if p.NoAny {
		w[KAnyData], w[KAnyXML] = 0, 0
	}
	if len(sc.v.groupings)+len(sc.localGroupings) == 0 {
		w[KUses] = 0
	}
	ws := make([]int, len(kinds))
	for i, k := range kinds {
		ws[i] = w[k]
	}
	return kinds, ws
}

// topClosure is the set of groupings whose top-level nodes end up in a parent
// that uses ref (ref itself plus, transitively, its top-level uses).
func (g *gen) topClosure(ref Ref, into map[Ref]bool) {
	if into[ref] {
		return
	}
	into[ref] = true
	gr, _ := FindGrouping(g.s, ref)
	if gr == nil {
		gr = g.pendingGroupings[ref]
	}
	if gr == nil {
		return
	}
	for _, n := range gr.Body {
		if n.Kind == KUses && n.Uses != nil {
			g.topClosure(*n.Uses, into)
		}
	}
}

// expandedSize counts the nodes a body expands to.
func (g *gen) expandedSize(body []*Node) int {
	n := 0
	for _, x := range body {
		if x.Kind == KUses && x.Uses != nil {
			if sz, ok := g.gsize[*x.Uses]; ok {
				n += sz
			} else {
				n++
			}
			continue
		}
		n += 1 + g.expandedSize(x.Kids)
	}
	return n
}

const maxExpandedBody = 160

func (g *gen) body(mi int, m *Mod, sc *scope, where string, depth, n int) []*Node {
	var out []*Node
	total := 0
	expanded := map[Ref]bool{}
	if where == "module" {
		// a module and its submodules expand into one tree
		if g.topExpanded[m.Owner()] == nil {
			g.topExpanded[m.Owner()] = map[Ref]bool{}
		}
		expanded = g.topExpanded[m.Owner()]
	}
	for i := 0; i < n; i++ {
		nd := g.node(mi, m, sc, where, depth)
		if nd == nil {
			continue
		}
		sz := g.expandedSize([]*Node{nd})
		if total+sz > maxExpandedBody {
			continue
		}
		total += sz
		if nd.Kind == KUses && nd.Uses != nil {
			// the same grouping expanded twice into one parent would collide
			cl := map[Ref]bool{}
			g.topClosure(*nd.Uses, cl)
			clash := false
			for r := range cl {
				if expanded[r] {
					clash = true
				}
			}
			if clash {
				continue
			}
			for r := range cl {
				expanded[r] = true
			}
		}
		out = append(out, nd)
	}
	if where != KChoice {
		// the same grouping used a second time in this place
		for _, o := range out {
			if o.Kind == KUses && o.Uses != nil && g.gsize[*o.Uses] > 0 {
				if g.wantInvalid(InvDupUses) {
					u := *o.Uses
					out = append(out, &Node{Kind: KUses, Uses: &u})
				}
				break
			}
		}
		// a second sibling with the name of an existing one
		for _, o := range out {
			if o.Kind != KUses && o.Kind != KInput && o.Kind != KOutput {
				if g.wantInvalid(InvDupSibling) {
					out = append(out, &Node{Kind: KLeaf, Name: o.Name, Type: &Type{Ref: Ref{Mod: "", Name: "string"}}})
				}
				break
			}
		}
	}
	return out
}

func (g *gen) node(mi int, m *Mod, sc *scope, where string, depth int) *Node {
	t := g.t
	kinds, ws := g.kindsFor(where, sc)
	if depth <= 0 {
		// leaves only
		for i, k := range kinds {
			if k != KLeaf && k != KLeafList && k != KAnyData && k != KAnyXML && k != KUses {
				ws[i] = 0
			}
		}
	}
	kind := kinds[t.Weighted(ws...)]
	n := &Node{Kind: kind}
	extras := func() {
		if !g.p.Extras {
			return
		}
		if t.Chance(1, 6) {
			n.Desc = "about " + n.Name
		}
		if t.Chance(1, 8) {
			n.When = "../" + g.id("w")
		}
		if t.Chance(1, 8) && n.Kind != KInput && n.Kind != KOutput {
			pool := []string{"status deprecated;", "status current;", "reference \"ref " + n.Name + "\";", "if-feature " + []string{"fa", "fb"}[t.Intn(2)] + ";"}
			switch n.Kind {
			case KContainer:
				pool = append(pool, "must \"../"+g.id("m")+"\";", "presence \"p "+n.Name+"\";")
			case KLeaf, KLeafList, KList, KAnyData, KAnyXML:
				pool = append(pool, "must \"../"+g.id("m")+"\";", "must \"count(../"+g.id("m")+") > 0\";")
			}
			for _, i := range t.Perm(len(pool))[:t.Range(1, 3)] {
				n.More = append(n.More, pool[i])
			}
			// (two status statements would be rejected)
			seen := false
			var keep []string
			for _, x := range n.More {
				if strings.HasPrefix(x, "status ") {
					if seen {
						continue
					}
					seen = true
				}
				keep = append(keep, x)
			}
			n.More = keep
		}
		if t.Chance(1, 10) {
			n.Ext = g.id("x")
			if t.Chance(1, 2) {
				// three or five statements leave spare capacity in the slice that holds them
				for k := []int{2, 4}[t.Intn(2)]; k > 0; k-- {
					n.Ext += "," + g.id("x")
				}
			}
		}
	}
	config := func() {
		if sc.underOp || sc.noConfig {
			return
		}
		switch t.Weighted(8, 1, 2) {
		case 1:
			n.Config = "true"
		case 2:
			n.Config = "false"
		}
		if n.Config != "" && g.wantInvalid(InvBadConfig) {
			n.Config = "maybe"
		}
	}
	switch kind {
	case KUses:
		var refs []Ref
		refs = append(refs, sc.v.groupings...)
		refs = append(refs, sc.localGroupings...)
		r := refs[t.Intn(len(refs))]
		n.Uses = &r
		if g.wantInvalid(InvUnknownGrouping) {
			n.Uses = &Ref{Mod: m.Name, Name: g.id("nosuchgrouping")}
		}
		if g.p.Extras && t.Chance(1, 8) {
			n.When = "../" + g.id("w")
		}
		if g.p.Extras && t.Chance(1, 6) {
			n.Ext = g.id("ux")
		}
		return n
	case KLeaf:
		n.Name = g.id("l")
		n.Type = g.typ(sc.v, sc, 0)
		if g.wantInvalid(InvUnknownType) {
			n.Type = &Type{Ref: Ref{Mod: m.Name, Name: g.id("nosuchtype")}}
		} else if g.wantInvalid(InvBadRange) {
			brk := t.Intn(10)
			if g.p.NoTypedefs && (brk == 9 || brk == 5) {
				brk = 0
			}
			switch brk {
			case 6:
				// min / max with nothing to stand for: the base has no range
				n.Type = &Type{Ref: Ref{Mod: "", Name: "string"}, Range: "1000..max"}
			case 7:
				n.Type = &Type{Ref: Ref{Mod: "", Name: "boolean"}, Range: "min..1000"}
			case 8:
				n.Type = &Type{Ref: Ref{Mod: "", Name: "union"}, Range: "1000..max", Union: []*Type{{Ref: Ref{Name: "string"}}, {Ref: Ref{Name: "int8"}}}}
			case 9:
				td := &Typedef{Name: g.id("t"), Type: &Type{Ref: Ref{Mod: "", Name: "string"}}}
				m.Typedefs = append(m.Typedefs, td)
				n.Type = &Type{Ref: Ref{Mod: m.Name, Name: td.Name}, Range: "min..1000"}
			case 0:
				n.Type = &Type{Ref: Ref{Mod: "", Name: "int32"}, Range: "10..1"}
			case 1:
				// above everything the base type allows
				n.Type = &Type{Ref: Ref{Mod: "", Name: "uint8"}, Range: "300"}
			case 2:
				n.Type = &Type{Ref: Ref{Mod: "", Name: "int8"}, Range: "-200..5"}
			case 3:
				n.Type = &Type{Ref: Ref{Mod: "", Name: "uint8"}, Range: "1..5|20..30|400"}
			case 4:
				n.Type = &Type{Ref: Ref{Mod: "", Name: "string"}, Length: "5..2"}
			case 5:
				// a refinement with a part above the parent's last range
				td := &Typedef{Name: g.id("t"), Type: &Type{Ref: Ref{Mod: "", Name: "int32"}, Range: "1..10"}}
				m.Typedefs = append(m.Typedefs, td)
				n.Type = &Type{Ref: Ref{Mod: m.Name, Name: td.Name}, Range: "1..5|20..30"}
			}
		}
		switch t.Weighted(6, 2, 1) {
		case 1:
			n.Default = []string{g.defaultFor(n.Type)}
		case 2:
			n.Mandatory = []string{"true", "false"}[t.Intn(2)]
		}
		config()
		extras()
	case KLeafList:
		n.Name = g.id("ll")
		n.Type = g.typ(sc.v, sc, 0)
		if t.Chance(1, 4) {
			n.Min = fmt.Sprintf("%d", t.Range(0, 3))
		}
		if t.Chance(1, 4) {
			n.Max = []string{"unbounded", "5", "17"}[t.Intn(3)]
		}
		if t.Chance(1, 6) {
			n.OrderedBy = []string{"user", "system"}[t.Intn(2)]
		}
		if t.Chance(1, 5) {
			for k := t.Range(1, 3); k > 0; k-- {
				n.Default = append(n.Default, g.defaultFor(n.Type))
			}
		}
		config()
		extras()
	case KAnyData, KAnyXML:
		n.Name = g.id("a")
		if t.Chance(1, 5) {
			n.Mandatory = "true"
		}
		config()
		extras()
	case KContainer, KList:
		if kind == KContainer {
			n.Name = g.id("c")
		} else {
			n.Name = g.id("ls")
		}
		config()
		extras()
		csc := sc.child()
		if n.Config == "false" {
			// RFC 7950 7.21.1: no config true below config false
			csc.noConfig = true
		}
		if !g.p.NoTypedefs && t.Chance(1, 8) {
			td := &Typedef{Name: g.id("t"), Type: g.typ(sc.v, sc, 0)}
			n.Typedefs = append(n.Typedefs, td)
			csc.localTypedefs = append(csc.localTypedefs, Ref{Mod: m.Name, Name: td.Name})
		}
		if t.Chance(1, 10) && depth > 1 {
			// Groupings local to a data node may share their name with a grouping
			// of a sibling scope (never with one that is visible here: the
			// nearest definition would shadow it).
			name := "lg"
			for _, r := range csc.localGroupings {
				if r.Name == name {
					name = g.id("g")
				}
			}
			ref := Ref{Mod: m.Name, Name: name, Scope: n.Name}
			gr := &Grouping{Name: name}
			gr.Body = g.body(mi, m, csc, "grouping", depth-2, t.Range(1, 2))
			n.Groupings = append(n.Groupings, gr)
			g.pendingGroupings[ref] = gr
			g.gsize[ref] = g.expandedSize(gr.Body)
			csc.localGroupings = append(csc.localGroupings, ref)
		}
		n.Kids = g.body(mi, m, csc, kind, depth-1, t.Weighted(1, 3, 3, 2, 1))
		if kind == KList {
			for _, k := range n.Kids {
				if k.Kind == KLeaf {
					n.Key = k.Name
					break
				}
			}
			if t.Chance(1, 4) {
				n.Min = fmt.Sprintf("%d", t.Range(0, 3))
			}
			if t.Chance(1, 4) {
				n.Max = []string{"unbounded", "7", "30"}[t.Intn(3)]
			}
			if t.Chance(1, 6) {
				n.OrderedBy = []string{"user", "system"}[t.Intn(2)]
			}
		}
	case KChoice:
		n.Name = g.id("ch")
		config()
		extras()
		n.Kids = g.body(mi, m, sc.child(), KChoice, depth-1, t.Range(1, 3))
		if t.Chance(1, 4) && len(n.Kids) > 0 {
			n.Default = []string{n.Kids[0].Name}
		} else if t.Chance(1, 6) {
			n.Mandatory = "true"
		}
	case KCase:
		n.Name = g.id("cs")
		extras()
		n.Kids = g.body(mi, m, sc.child(), KCase, depth-1, t.Range(0, 2))
	case KRPC, KAction:
		if kind == KRPC {
			n.Name = g.id("r")
		} else {
			n.Name = g.id("act")
		}
		csc := sc.child()
		csc.underOp = true
		// typedefs local to the operation, and to its input / output
		localTypedef := func(holder *Node, into *scope, chance int) {
			if !g.p.NoTypedefs && t.Chance(1, chance) {
				td := &Typedef{Name: g.id("t"), Type: g.typ(sc.v, sc, 0)}
				holder.Typedefs = append(holder.Typedefs, td)
				into.localTypedefs = append(into.localTypedefs, Ref{Mod: m.Name, Name: td.Name})
			}
		}
		localTypedef(n, csc, 5)
		if t.Chance(2, 3) {
			in := &Node{Kind: KInput}
			isc := csc.child()
			localTypedef(in, isc, 6)
			in.Kids = g.body(mi, m, isc, KInput, depth-1, t.Range(0, 2))
			n.Kids = append(n.Kids, in)
		}
		if t.Chance(1, 2) {
			out := &Node{Kind: KOutput}
			osc := csc.child()
			localTypedef(out, osc, 6)
			out.Kids = g.body(mi, m, osc, KOutput, depth-1, t.Range(0, 2))
			n.Kids = append(n.Kids, out)
		}
	case KNotification:
		n.Name = g.id("nt")
		csc := sc.child()
		csc.underOp = true
		if !g.p.NoTypedefs && t.Chance(1, 5) {
			td := &Typedef{Name: g.id("t"), Type: g.typ(sc.v, sc, 0)}
			n.Typedefs = append(n.Typedefs, td)
			csc.localTypedefs = append(csc.localTypedefs, Ref{Mod: m.Name, Name: td.Name})
		}
		n.Kids = g.body(mi, m, csc, KNotification, depth-1, t.Range(0, 3))
	}
	return n
}

// ---------------------------------------------------------------------------
// augments and deviations pick their targets from the reference compilation
// of what has been generated so far.

type target struct {
	steps []Step
	x     *XNode
}

// collectTargets lists every node of the compiled trees with its absolute path.
func collectTargets(cp *Compiled, s *Scenario) []target {
	var out []target
	var rec func(x *XNode, steps []Step, ns string)
	rec = func(x *XNode, steps []Step, ns string) {
		for _, name := range sortedKids(x.Kids) {
			k := x.Kids[name]
			kns := ns
			if k.NSMod != "" {
				kns = k.NSMod
			}
			st := append(append([]Step(nil), steps...), Step{kns, k.Name})
			out = append(out, target{st, k})
			rec(k, st, kns)
		}
		for _, io := range []*XNode{x.Input, x.Output} {
			if io != nil {
				st := append(append([]Step(nil), steps...), Step{ns, io.Name})
				out = append(out, target{st, io})
				rec(io, st, ns)
			}
		}
	}
	for _, m := range s.Mods {
		if root := cp.Trees[m.Name]; root != nil {
			rec(root, nil, m.Name)
		}
	}
	return out
}

func (g *gen) augments() {
	t := g.t
	n := g.rng(g.p.Augments)
	for i := 0; i < n; i++ {
		cp := Compile(g.s)
		if len(cp.Conflicts) > 0 && g.invalid == 0 {
			// should not happen: the valid part of the generator produced a conflict
			return
		}
		all := collectTargets(cp, g.s)
		var cand []target
		late := map[*XNode]bool{}
		for _, c := range all {
			switch c.x.Kind {
			case KContainer, KList, KChoice, KCase, KInput, KOutput, KNotification:
				if c.x.Implicit {
					continue // implicit cases are outside the claim
				}
				// nothing may hang below an implicit case either (its path does not exist before FixChoice)
				imp := false
				for p := c.x.Parent; p != nil; p = p.Parent {
					if p.Implicit {
						imp = true
					}
				}
				if imp && !g.p.LateAugments {
					continue
				}
				if imp {
					late[c.x] = true
				}
				cand = append(cand, c)
			}
		}
		// undeclared rpc input/output are legal targets too
		for _, c := range all {
			if c.x.Kind == KRPC || c.x.Kind == KAction {
				imp := false
				for p := c.x; p != nil; p = p.Parent {
					if p.Implicit {
						imp = true
					}
				}
				if imp && !g.p.LateAugments {
					continue
				}
				for _, io := range []struct {
					have *XNode
					kind string
				}{{c.x.Input, KInput}, {c.x.Output, KOutput}} {
					if io.have == nil {
						xn := &XNode{Kind: io.kind}
						if imp {
							late[xn] = true
						}
						cand = append(cand, target{append(append([]Step(nil), c.steps...), Step{c.steps[len(c.steps)-1].Mod, io.kind}), xn})
					}
				}
			}
		}
		if len(cand) == 0 {
			return
		}
		// prefer targets created by earlier augments (chains) half of the time
		var chain []target
		for _, c := range cand {
			for p := c.x; p != nil; p = p.Parent {
				if p.Grafted {
					chain = append(chain, c)
					break
				}
			}
		}
		tg := cand[t.Intn(len(cand))]
		if len(chain) > 0 && t.Chance(1, 2) {
			tg = chain[t.Intn(len(chain))]
		}
		if g.p.LateAugments && len(late) > 0 && t.Chance(1, 2) {
			var ls []target
			for _, c := range cand {
				if late[c.x] {
					ls = append(ls, c)
				}
			}
			tg = ls[t.Intn(len(ls))]
			// a choice below an implicit case: what the augment adds needs an
			// implicit case of its own, after the last pass that inserts them
			var lc []target
			for _, c := range ls {
				if c.x.Kind == KChoice {
					lc = append(lc, c)
				}
			}
			if len(lc) > 0 && t.Chance(2, 3) {
				tg = lc[t.Intn(len(lc))]
			}
		}
		// which module writes the augment
		mi := t.Intn(len(g.mods))
		am := g.mods[mi]
		if subs := g.subsOf[am.Name]; len(subs) > 0 && t.Chance(1, 4) {
			am = subs[t.Intn(len(subs))]
		}
		a := &Augment{Target: tg.steps, Late: late[tg.x]}
		sc := &scope{v: g.visibleFrom(mi, am)}
		for p := tg.x; p != nil; p = p.Parent {
			if p.Kind == KRPC || p.Kind == KAction || p.Kind == KNotification || p.Kind == KInput || p.Kind == KOutput {
				sc.underOp = true
			}
		}
		if tg.x.Kind == KInput || tg.x.Kind == KOutput {
			sc.underOp = true
		}
		where := "augment"
		switch tg.x.Kind {
		case KChoice:
			where = KChoice
		case KInput, KOutput, KNotification, KCase:
			where = KCase // data nodes and uses only
		}
		a.Body = g.body(mi, am, sc, where, g.p.Depth-1, t.Range(1, 3))
		if where == KChoice {
			// shorthand members under an augmented choice: keep to explicit cases and containers
			if !g.p.NoChoice && t.Chance(1, 4) {
				// a choice directly under the choice (goyang's grammar has no
				// choice-in-choice, an augment is the way to get one)
				lf := func() *Node {
					return &Node{Kind: KLeaf, Name: g.id("l"), Type: &Type{Ref: Ref{Mod: "", Name: "string"}}}
				}
				a.Body = append(a.Body, &Node{Kind: KChoice, Name: g.id("ch"), Kids: []*Node{
					{Kind: KCase, Name: g.id("cs"), Kids: []*Node{lf()}}, lf()}})
			}
		}
		if late[tg.x] && t.Chance(1, 2) {
			// something that needs an implicit case of its own
			lf := &Node{Kind: KLeaf, Name: g.id("l"), Type: &Type{Ref: Ref{Mod: "", Name: "string"}}}
			if where == KChoice {
				a.Body = append(a.Body, lf)
			} else {
				a.Body = append(a.Body, &Node{Kind: KChoice, Name: g.id("ch"), Kids: []*Node{lf}})
			}
		}
		if g.p.Extras && t.Chance(1, 6) {
			a.When = "../" + g.id("w")
		}
		switch {
		case g.wantInvalid(InvAugRelative):
			nm := g.id("c")
			a.Target = []Step{{am.Name, nm}}
			a.Relative = true
			a.Bare = t.Chance(1, 2)
			a.Body = []*Node{{Kind: KContainer, Name: nm, Kids: []*Node{{Kind: KLeaf, Name: g.id("l"), Type: &Type{Ref: Ref{Mod: "", Name: "string"}}}}}}
			a.Invalid = InvAugRelative
			am.Augments = append(am.Augments, a)
			continue
		case len(tg.steps) >= 2 && g.wantInvalid(InvAugBadPrefix):
			a.BadPrefix = 1 + t.Intn(len(tg.steps)-1)
			a.Invalid = InvAugBadPrefix
		case g.wantInvalid(InvAugMissing):
			a.Target = append(append([]Step(nil), tg.steps...), Step{tg.steps[len(tg.steps)-1].Mod, g.id("nosuchnode")})
			a.Invalid = InvAugMissing
		case g.wantInvalid(InvAugLeaf):
			var leaves []target
			for _, c := range all {
				if c.x.Kind == KLeaf || c.x.Kind == KLeafList || c.x.Kind == KAnyData || c.x.Kind == KAnyXML {
					leaves = append(leaves, c)
				}
			}
			if len(leaves) > 0 {
				a.Target = leaves[t.Intn(len(leaves))].steps
				a.Invalid = InvAugLeaf
			} else {
				g.invalid--
				g.injected = g.injected[:len(g.injected)-1]
			}
		case g.wantInvalid(InvAugCollisionOwn):
			if names := sortedKids(tg.x.Kids); len(names) > 0 && tg.x.Kind != KChoice {
				a.Body = append(a.Body, &Node{Kind: KLeaf, Name: names[t.Intn(len(names))], Type: &Type{Ref: Ref{Mod: "", Name: "string"}}})
				a.Invalid = InvAugCollisionOwn
			} else {
				g.invalid--
				g.injected = g.injected[:len(g.injected)-1]
			}
		}
		a.Bare = t.Sub(fmt.Sprintf("bare-paths-%d", g.ctr)).Chance(1, 5)
		am.Augments = append(am.Augments, a)
		if a.Late {
			// the reference model reports it as not found (outside C07's
			// claim); it is the last augment of the scenario
			return
		}
		if g.invalid == 0 {
			if chk := Compile(g.s); len(chk.Conflicts) > 0 {
				// the body collided with what the target already holds (e.g. the
				// same grouping expanded twice): not intended, drop it
				am.Augments = am.Augments[:len(am.Augments)-1]
				continue
			}
		}
		if a.Invalid == "" && tg.x.Kind != KChoice && g.wantInvalid(InvAugCollision) {
			// a second module augments the same target with the same child name
			var first string
			for _, b := range a.Body {
				if b.Kind != KUses {
					first = b.Name
					break
				}
			}
			if first != "" {
				om := g.mods[t.Intn(len(g.mods))]
				om.Augments = append(om.Augments, &Augment{Target: tg.steps, Invalid: InvAugCollision, Body: []*Node{{Kind: KLeaf, Name: first, Type: &Type{Ref: Ref{Mod: "", Name: "string"}}}}})
			} else {
				g.invalid--
				g.injected = g.injected[:len(g.injected)-1]
			}
		}
	}
	// declaration order of augments is not semantic: shuffle per module
	for _, m := range g.s.Mods {
		if len(m.Augments) > 1 {
			p := t.Perm(len(m.Augments))
			na := make([]*Augment, len(m.Augments))
			for i, j := range p {
				na[i] = m.Augments[j]
			}
			m.Augments = na
		}
	}
}

func (g *gen) deviations() {
	t := g.t
	nd := g.rng(g.p.Deviations)
	if nd == 0 {
		return
	}
	ndm := g.rng(g.p.DevMods)
	if ndm < 1 {
		ndm = 1
	}
	var dms []*Mod
	for i := 0; i < ndm; i++ {
		dm := &Mod{Name: fmt.Sprintf("d%d", i), Prefix: fmt.Sprintf("dp%d", i), NS: fmt.Sprintf("urn:d%d", i)}
		dms = append(dms, dm)
	}
	cp := Compile(g.s)
	all := collectTargets(cp, g.s)
	var cand []target
	for _, c := range all {
		if c.x.Implicit {
			continue
		}
		imp := false
		for p := c.x.Parent; p != nil; p = p.Parent {
			if p.Implicit {
				imp = true
			}
		}
		// after FixChoice the library resolves paths through the inserted case:
		// write the path as the final tree has it
		_ = imp
		cand = append(cand, c)
	}
	if len(cand) == 0 {
		return
	}
	used := map[*XNode]bool{}
	removed := func(x *XNode) bool {
		for p := x; p != nil; p = p.Parent {
			if used[p] && p.Deviated {
				return true
			}
		}
		return false
	}
	_ = removed
	gone := map[*XNode]bool{}
	goneBy := map[*XNode]*Mod{}
	for i := 0; i < nd; i++ {
		tg := cand[t.Intn(len(cand))]
		if by := func() *Mod {
			for p := tg.x; p != nil; p = p.Parent {
				if goneBy[p] != nil {
					return goneBy[p]
				}
			}
			return nil
		}(); by != nil && !used[tg.x] || by != nil && gone[tg.x] {
			if g.wantInvalid(InvDevGone) {
				dv := &Deviate{Kind: "not-supported"}
				if t.Chance(1, 2) {
					dv = &Deviate{Kind: "replace", Config: "false"}
				}
				by.Deviations = append(by.Deviations, &Deviation{Target: g.finalPath(tg), Deviates: []*Deviate{dv}, Invalid: InvDevGone})
			}
			continue
		}
		if used[tg.x] {
			if g.p.CrossDeviationTrap && len(dms) > 1 && !gone[tg.x] && (tg.x.Kind == KLeaf || tg.x.Kind == KLeafList || tg.x.Kind == KContainer) {
				// every deviating module sets the same property to its own value
				for di, dm := range dms {
					dm.Deviations = append(dm.Deviations, &Deviation{Target: g.finalPath(tg), Deviates: []*Deviate{{Kind: "replace", Config: []string{"true", "false"}[di%2]}}})
				}
			}
			continue // otherwise one deviation per node: cross-module order is not defined by the property
		}
		// do not aim below or at something an earlier not-supported removed
		skip := false
		for p := tg.x; p != nil; p = p.Parent {
			if gone[p] {
				skip = true
			}
		}
		if skip {
			continue
		}
		used[tg.x] = true
		dm := dms[t.Intn(len(dms))]
		d := &Deviation{Target: g.finalPath(tg)}
		x := tg.x
		if x.Kind == KInput || x.Kind == KOutput {
			// the input or output of an rpc / action as a whole: not-supported only
			hasBelow := false
			for _, c := range cand {
				for p := c.x.Parent; p != nil; p = p.Parent {
					if p == x && used[c.x] {
						hasBelow = true
					}
				}
			}
			if hasBelow || !t.Chance(1, 2) {
				used[x] = false
				continue
			}
			gone[x] = true
			goneBy[x] = dm
			d.Deviates = []*Deviate{{Kind: "not-supported"}}
			dm.Deviations = append(dm.Deviations, d)
			continue
		}
		isLeafy := x.Kind == KLeaf || x.Kind == KLeafList
		isListy := x.Kind == KList || x.Kind == KLeafList
		// invalid deviations first (each makes the whole scenario "must report")
		switch {
		case len(d.Target) >= 2 && g.wantInvalid(InvDevBadPrefix):
			d.BadPrefix = 1 + t.Intn(len(d.Target)-1)
			d.Deviates = []*Deviate{{Kind: "not-supported"}}
			if t.Chance(1, 2) {
				d.Deviates = []*Deviate{{Kind: "replace", Config: "false"}}
			}
			d.Invalid = InvDevBadPrefix
		case g.wantInvalid(InvDevMissing):
			d.Target = append(append([]Step(nil), d.Target...), Step{d.Target[len(d.Target)-1].Mod, g.id("nosuchnode")})
			d.Deviates = []*Deviate{{Kind: "add", Config: "false"}}
			if t.Chance(1, 2) {
				d.Deviates = []*Deviate{{Kind: "not-supported"}}
			}
			d.Invalid = InvDevMissing
		case x.Kind == KLeaf && len(x.Default) == 1 && g.wantInvalid(InvDevAddDefault):
			d.Deviates = []*Deviate{{Kind: "add", Default: []string{"zz"}}}
			d.Invalid = InvDevAddDefault
		case x.Kind == KLeaf && len(x.Default) == 0 && g.wantInvalid(InvDevDelDefault):
			d.Deviates = []*Deviate{{Kind: "delete", Default: []string{"zz"}}}
			d.Invalid = InvDevDelDefault
		case x.Kind == KLeaf && len(x.Default) == 1 && g.wantInvalid(InvDevDelOther):
			d.Deviates = []*Deviate{{Kind: "delete", Default: []string{x.Default[0] + "-other"}}}
			d.Invalid = InvDevDelOther
		case !isListy && g.wantInvalid(InvDevMinNonList):
			d.Deviates = []*Deviate{{Kind: "add", Min: "2"}}
			d.Invalid = InvDevMinNonList
		case isListy && x.Min != 0 && g.wantInvalid(InvDevDelMin):
			d.Deviates = []*Deviate{{Kind: "delete", Min: fmt.Sprintf("%d", x.Min+1)}}
			d.Invalid = InvDevDelMin
		case g.wantInvalid(InvDevUnknownKind):
			d.Deviates = []*Deviate{{Kind: "remove", Config: "false"}}
			d.Invalid = InvDevUnknownKind
		}
		if d.Invalid != "" {
			dm.Deviations = append(dm.Deviations, d)
			continue
		}
		nds := 1
		if g.p.OrderTraps {
			nds = t.Weighted(0, 5, 3, 1)
		}
		// simulate the effect so that later deviate statements stay RFC-valid
		cur := *x
		cur.Default = append([]string(nil), x.Default...)
		for k := 0; k < nds; k++ {
			dv := &Deviate{}
			switch t.Weighted(2, 4, 4, 3) {
			case 0:
				if k > 0 || nds > 1 {
					continue
				}
				dv.Kind = "not-supported"
				hasBelow := false
				for _, c := range cand {
					for p := c.x.Parent; p != nil; p = p.Parent {
						if p == x && used[c.x] {
							hasBelow = true
						}
					}
				}
				if hasBelow {
					continue
				}
				gone[x] = true
				goneBy[x] = dm
				if g.wantInvalid(InvDevDoubleNS) {
					d.Deviates = append(d.Deviates, &Deviate{Kind: "not-supported"})
					d.Invalid = InvDevDoubleNS
				}
			case 1: // add: only of an absent property
				dv.Kind = "add"
				for np, got := g.devProps(), 0; np > 0; np-- {
					switch {
					case cur.Kind == KLeaf && len(cur.Default) == 0 && len(dv.Default) == 0 && t.Chance(1, 2):
						dv.Default = []string{g.id("dd")}
						cur.Default = dv.Default
					case cur.Kind == KLeafList && len(dv.Default) == 0 && t.Chance(1, 2):
						dv.Default = []string{g.id("dd")} // (the library's deviate statement holds one default)
						cur.Default = append(cur.Default, dv.Default...)
					case cur.Config == "" && dv.Config == "" && !underOp(x) && t.Chance(1, 2):
						dv.Config = []string{"true", "false"}[t.Intn(2)]
						cur.Config = dv.Config
					case cur.Mandatory == "" && dv.Mandatory == "" && (cur.Kind == KLeaf || cur.Kind == KChoice || cur.Kind == KAnyData || cur.Kind == KAnyXML) && t.Chance(1, 2):
						dv.Mandatory = []string{"true", "false"}[t.Intn(2)]
						cur.Mandatory = dv.Mandatory
					case isListy && cur.Min == 0 && dv.Min == "" && t.Chance(1, 2):
						v := t.Range(1, 4)
						dv.Min = fmt.Sprintf("%d", v)
						cur.Min = uint64(v)
					case isListy && cur.Max == MaxUint64 && dv.Max == "" && t.Chance(1, 2):
						v := t.Range(5, 40)
						dv.Max = fmt.Sprintf("%d", v)
						cur.Max = uint64(v)
					case isLeafy && cur.Units == "" && dv.Units == "":
						dv.Units = g.id("du")
						cur.Units = dv.Units
					default:
						if got == 0 {
							np = 0
						}
						continue
					}
					got++
				}
				if len(dv.Default) == 0 && dv.Config == "" && dv.Mandatory == "" && dv.Min == "" && dv.Max == "" && dv.Units == "" {
					continue
				}
			case 2: // replace: only of a present property
				dv.Kind = "replace"
				for np, got := g.devProps(), 0; np > 0; np-- {
					switch {
					case isLeafy && dv.Type == nil && t.Chance(1, 3):
						dv.Type = &Type{Ref: Ref{Name: []string{"string", "uint8", "boolean", "int64"}[t.Intn(4)]}}
						if got == 0 && g.wantInvalid(InvDevBadType) {
							dv.Type = &Type{Ref: Ref{Mod: dm.Name, Name: g.id("nosuchtype")}}
							d.Invalid = InvDevBadType
						}
					case len(cur.Default) > 0 && len(dv.Default) == 0 && cur.Kind != KChoice:
						dv.Default = []string{g.id("rd")}
						cur.Default = dv.Default
					case cur.Config != "" && dv.Config == "":
						dv.Config = map[string]string{"true": "false", "false": "true"}[cur.Config]
						cur.Config = dv.Config
					case cur.Mandatory != "" && dv.Mandatory == "":
						dv.Mandatory = map[string]string{"true": "false", "false": "true"}[cur.Mandatory]
						cur.Mandatory = dv.Mandatory
					case isListy && cur.Min != 0 && dv.Min == "":
						v := t.Range(1, 9)
						dv.Min = fmt.Sprintf("%d", v)
						cur.Min = uint64(v)
					case isListy && cur.Max != MaxUint64 && dv.Max == "":
						if t.Chance(1, 4) {
							dv.Max = "unbounded"
							cur.Max = MaxUint64
						} else {
							v := t.Range(41, 90)
							dv.Max = fmt.Sprintf("%d", v)
							cur.Max = uint64(v)
						}
					case isLeafy && cur.Units != "" && dv.Units == "":
						dv.Units = g.id("ru")
						cur.Units = dv.Units
					default:
						if got == 0 {
							np = 0
						}
						continue
					}
					got++
				}
				if dv.Type == nil && len(dv.Default) == 0 && dv.Config == "" && dv.Mandatory == "" && dv.Min == "" && dv.Max == "" && dv.Units == "" {
					continue
				}
			case 3: // delete: only of a present property, argument matching
				dv.Kind = "delete"
				for np, got := g.devProps(), 0; np > 0; np-- {
					switch {
					case cur.Kind == KLeaf && len(cur.Default) == 1 && len(dv.Default) == 0:
						dv.Default = []string{cur.Default[0]}
						cur.Default = nil
					case cur.Config != "" && dv.Config == "" && t.Chance(1, 2):
						dv.Config = cur.Config
						cur.Config = ""
					case cur.Mandatory != "" && dv.Mandatory == "":
						dv.Mandatory = cur.Mandatory
						cur.Mandatory = ""
					case isListy && cur.Min != 0 && dv.Min == "":
						dv.Min = fmt.Sprintf("%d", cur.Min)
						cur.Min = 0
					case isListy && cur.Max != MaxUint64 && dv.Max == "":
						dv.Max = fmt.Sprintf("%d", cur.Max)
						cur.Max = MaxUint64
					default:
						if got == 0 {
							np = 0
						}
						continue
					}
					got++
				}
				if len(dv.Default) == 0 && dv.Config == "" && dv.Mandatory == "" && dv.Min == "" && dv.Max == "" {
					continue
				}
			}
			d.Deviates = append(d.Deviates, dv)
		}
		if len(d.Deviates) == 0 {
			used[tg.x] = false
			continue
		}
		dm.Deviations = append(dm.Deviations, d)
	}
	for _, dm := range dms {
		if len(dm.Deviations) > 0 {
			g.s.Mods = append(g.s.Mods, dm)
		}
	}
}

// devProps draws how many properties one deviate statement names.
func (g *gen) devProps() int {
	return 1 + g.t.Weighted(6, 3, 1)
}

func underOp(x *XNode) bool {
	for p := x; p != nil; p = p.Parent {
		switch p.Kind {
		case KRPC, KAction, KNotification, KInput, KOutput:
			return true
		}
	}
	return false
}

// finalPath is the path of a target in the final tree (implicit cases included).
func (g *gen) finalPath(tg target) []Step {
	return tg.steps
}

// injectLate adds the invalid constructs that are independent of the data tree.
func (g *gen) injectLate() {
	t := g.t
	m := g.mods[t.Intn(len(g.mods))]
	if g.wantInvalid(InvUsesCycle) {
		// a cycle of 1-3 groupings, optionally spread over two modules that then
		// import each other, optionally with the uses nested in a container,
		// optionally never used from the data tree
		k := t.Range(1, 3)
		names := make([]string, k)
		owners := make([]*Mod, k)
		for i := range names {
			names[i] = g.id("g")
			owners[i] = m
			if len(g.mods) > 1 && t.Chance(1, 3) {
				owners[i] = g.mods[t.Intn(len(g.mods))]
			}
		}
		for i := range names {
			nxt := (i + 1) % k
			use := &Node{Kind: KUses, Uses: &Ref{Mod: owners[nxt].Name, Name: names[nxt]}}
			body := []*Node{{Kind: KLeaf, Name: g.id("l"), Type: &Type{Ref: Ref{Mod: "", Name: "string"}}}}
			if t.Chance(1, 3) {
				body = append(body, &Node{Kind: KContainer, Name: g.id("c"), Kids: []*Node{use}})
			} else {
				body = append(body, use)
			}
			owners[i].Groupings = append(owners[i].Groupings, &Grouping{Name: names[i], Body: body})
		}
		if t.Chance(2, 3) {
			m.Body = append(m.Body, &Node{Kind: KContainer, Name: g.id("c"), Kids: []*Node{{Kind: KUses, Uses: &Ref{Mod: owners[0].Name, Name: names[0]}}}})
		}
	}
	if g.wantInvalid(InvTypedefCycle) {
		a, b := g.id("t"), g.id("t")
		if t.Chance(1, 2) {
			b = a
		}
		m.Typedefs = append(m.Typedefs, &Typedef{Name: a, Type: &Type{Ref: Ref{Mod: m.Name, Name: b}}})
		if a != b {
			m.Typedefs = append(m.Typedefs, &Typedef{Name: b, Type: &Type{Ref: Ref{Mod: m.Name, Name: a}}})
		}
		m.Body = append(m.Body, &Node{Kind: KLeaf, Name: g.id("l"), Type: &Type{Ref: Ref{Mod: m.Name, Name: a}}})
	}
	if g.wantInvalid(InvIdentityCycle) {
		k := t.Range(1, 3)
		names := make([]string, k)
		for i := range names {
			names[i] = g.id("i")
		}
		for i := range names {
			m.Identities = append(m.Identities, &Identity{Name: names[i], Bases: []Ref{{Mod: m.Name, Name: names[(i+1)%k]}}})
		}
	}
	if g.wantInvalid(InvFanoutChain) {
		depth := t.Range(12, 30)
		prev := g.id("t")
		m.Typedefs = append(m.Typedefs, &Typedef{Name: prev, Type: &Type{Ref: Ref{Mod: m.Name, Name: g.id("nosuchtype")}}})
		for k := 0; k < depth; k++ {
			cur := g.id("t")
			m.Typedefs = append(m.Typedefs, &Typedef{Name: cur, Type: &Type{Ref: Ref{Mod: "", Name: "union"}, Union: []*Type{{Ref: Ref{Mod: m.Name, Name: prev}}, {Ref: Ref{Mod: m.Name, Name: prev}}}}})
			prev = cur
		}
		m.Body = append(m.Body, &Node{Kind: KLeaf, Name: g.id("l"), Type: &Type{Ref: Ref{Mod: m.Name, Name: prev}}})
	}
	if g.wantInvalid(InvUndefinedBase) {
		m.Identities = append(m.Identities, &Identity{Name: g.id("i"), Bases: []Ref{{Mod: m.Name, Name: g.id("nosuchidentity")}}})
	}
	if g.p.OrderTraps && len(g.mods) > 1 && t.Chance(1, 2) {
		// the same identity name in two modules, both derived from one base
		var bases []Ref
		for _, x := range g.mods[:1] {
			for _, id := range x.Identities {
				bases = append(bases, Ref{Mod: x.Name, Name: id.Name})
			}
		}
		if len(bases) == 0 {
			g.mods[0].Identities = append(g.mods[0].Identities, &Identity{Name: g.id("i")})
			bases = append(bases, Ref{Mod: g.mods[0].Name, Name: g.mods[0].Identities[len(g.mods[0].Identities)-1].Name})
		}
		b := bases[t.Intn(len(bases))]
		name := g.id("same")
		cnt := 0
		var holders []*Mod
		for _, x := range g.mods {
			if t.Chance(2, 3) || cnt < 2 {
				x.Identities = append(x.Identities, &Identity{Name: name, Bases: []Ref{b}})
				holders = append(holders, x)
				cnt++
			}
		}
		// identities derived from the equal-named ones: locally (unprefixed base)
		// and from other modules (prefixed base), so that the same base string
		// means different identities in different texts
		for _, x := range holders {
			if t.Chance(2, 3) {
				x.Identities = append(x.Identities, &Identity{Name: g.id("i"), Bases: []Ref{{Mod: x.Name, Name: name}}})
			}
		}
		for _, x := range g.mods {
			if t.Chance(1, 2) {
				h := holders[t.Intn(len(holders))]
				if h != x {
					x.Identities = append(x.Identities, &Identity{Name: g.id("i"), Bases: []Ref{{Mod: h.Name, Name: name}}})
				}
			}
		}
		// a union whose members are identityrefs to two of the equal-named
		// identities (they differ only in the object their base is), written in
		// the last holder directly or through a typedef
		if len(holders) >= 2 && t.Chance(1, 2) {
			first, last := holders[0], holders[len(holders)-1]
			a, b := Ref{Mod: first.Name, Name: name}, Ref{Mod: last.Name, Name: name}
			u := &Type{Ref: Ref{Mod: "", Name: "union"}, Union: []*Type{{Ref: Ref{Mod: "", Name: "identityref"}, Base: &a}, {Ref: Ref{Mod: "", Name: "identityref"}, Base: &b}}}
			if !g.p.NoTypedefs && t.Chance(1, 2) {
				td := &Typedef{Name: g.id("t"), Type: u}
				last.Typedefs = append(last.Typedefs, td)
				u = &Type{Ref: Ref{Mod: last.Name, Name: td.Name}}
			}
			last.Body = append(last.Body, &Node{Kind: KLeaf, Name: g.id("l"), Type: u})
		}
	}
}

// usesPosix reports whether some type of the scenario has posix patterns.
func usesPosix(s *Scenario) bool {
	b, _ := json.Marshal(s)
	return strings.Contains(string(b), `"posix":[`)
}
