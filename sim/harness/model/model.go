// Package model is the abstract scenario model that the workload generator
// produces, the renderer turns into YANG text, and the reference compiler
// (ref.go) interprets.  It shares no code with goyang.
package model

import (
	"encoding/json"
	"sort"
)

// Ref names a definition (typedef, grouping, identity) by the module or
// submodule whose text contains it and its name.  Mod == "" is a built-in type.
type Ref struct {
	Mod  string `json:"mod,omitempty"`
	Name string `json:"name"`
	// Scope, for a grouping defined inside a data node, is the (scenario-wide
	// unique) name of that node: several sibling scopes may define groupings
	// of the same name.
	Scope string `json:"scope,omitempty"`
}

// Scenario is a set of module and submodule texts in abstract form.
type Scenario struct {
	Mods []*Mod `json:"mods"`
}

// Mod is one module or submodule.
type Mod struct {
	Name      string   `json:"name"`
	BelongsTo string   `json:"belongs_to,omitempty"` // non-empty for a submodule
	Prefix    string   `json:"prefix"`               // module prefix; for a submodule the belongs-to prefix
	NS        string   `json:"ns,omitempty"`
	Revs      []string `json:"revs,omitempty"`
	// ImportAs overrides the prefix under which this module imports another
	// one (default: the imported module's own prefix).
	ImportAs map[string]string `json:"import_as,omitempty"`
	// ImportRev pins an import to a revision-date.
	ImportRev map[string]string `json:"import_rev,omitempty"`
	// ExtraImports lists modules imported although nothing refers to them.
	ExtraImports []string     `json:"extra_imports,omitempty"`
	Includes     []*Include   `json:"includes,omitempty"`
	Typedefs     []*Typedef   `json:"typedefs,omitempty"`
	Groupings    []*Grouping  `json:"groupings,omitempty"`
	Identities   []*Identity  `json:"identities,omitempty"`
	Body         []*Node      `json:"body,omitempty"`
	Augments     []*Augment   `json:"augments,omitempty"`
	Deviations   []*Deviation `json:"deviations,omitempty"`
	// Raw is text spliced verbatim at the end of the module body (used to make
	// deliberately rejected modules).
	Raw string `json:"raw,omitempty"`
	// OwnPrefix, when non-zero, makes the renderer write about half of the
	// references to local definitions (typedefs, groupings, identities) with
	// the module's own prefix (which ones is a function of this value and the
	// name).
	OwnPrefix uint64 `json:"own_prefix,omitempty"`
	// YangVersion, when set, is rendered as a yang-version statement.
	YangVersion string `json:"yang_version,omitempty"`
}

// Include is an include statement.
type Include struct {
	Sub string `json:"sub"`
	Rev string `json:"rev,omitempty"`
}

// Typedef is a typedef statement.
type Typedef struct {
	Name    string `json:"name"`
	Type    *Type  `json:"type"`
	Default string `json:"default,omitempty"`
	Units   string `json:"units,omitempty"`
}

// Enum is one enum or bit member.
type Enum struct {
	Name  string `json:"name"`
	Value *int   `json:"value,omitempty"`
}

// Type is a type statement.
type Type struct {
	Ref      Ref      `json:"ref"`
	Range    string   `json:"range,omitempty"`
	Length   string   `json:"length,omitempty"`
	Patterns []string `json:"patterns,omitempty"`
	// Posix lists arguments of openconfig-extensions:posix-pattern statements
	// (the scenario then holds a module of that name declaring the extension).
	Posix          []string `json:"posix,omitempty"`
	Enums          []Enum   `json:"enums,omitempty"`
	Bits           []Enum   `json:"bits,omitempty"`
	Path           string   `json:"path,omitempty"`
	Base           *Ref     `json:"base,omitempty"` // identityref base
	FractionDigits int      `json:"fraction_digits,omitempty"`
	Union          []*Type  `json:"union,omitempty"`
}

// Grouping is a grouping statement.
type Grouping struct {
	Name      string      `json:"name"`
	Typedefs  []*Typedef  `json:"typedefs,omitempty"`
	Groupings []*Grouping `json:"groupings,omitempty"`
	Body      []*Node     `json:"body,omitempty"`
}

// Identity is an identity statement.
type Identity struct {
	Name  string `json:"name"`
	Bases []Ref  `json:"bases,omitempty"`
}

// Node kinds.
const (
	KContainer    = "container"
	KList         = "list"
	KLeaf         = "leaf"
	KLeafList     = "leaf-list"
	KChoice       = "choice"
	KCase         = "case"
	KAnyData      = "anydata"
	KAnyXML       = "anyxml"
	KRPC          = "rpc"
	KAction       = "action"
	KNotification = "notification"
	KUses         = "uses"
	KInput        = "input"
	KOutput       = "output"
)

// Node is a data-definition statement (or uses).
type Node struct {
	Kind      string      `json:"kind"`
	Name      string      `json:"name,omitempty"`
	Config    string      `json:"config,omitempty"`    // "", "true", "false"
	Mandatory string      `json:"mandatory,omitempty"` // "", "true", "false"
	Default   []string    `json:"default,omitempty"`
	Units     string      `json:"units,omitempty"`
	Desc      string      `json:"desc,omitempty"`
	Type      *Type       `json:"type,omitempty"`
	Key       string      `json:"key,omitempty"`
	Min       string      `json:"min,omitempty"`
	Max       string      `json:"max,omitempty"`
	OrderedBy string      `json:"ordered_by,omitempty"`
	When      string      `json:"when,omitempty"`
	Ext       string      `json:"ext,omitempty"` // argument of a prefixed extension statement placed in the node
	// More lists further substatements verbatim (status, reference, if-feature,
	// must, presence): statements the library files under Extra.  A feature named
	// by an if-feature is declared by the renderer in the text that names it.
	More []string `json:"more,omitempty"`
	Uses      *Ref        `json:"uses,omitempty"`
	Typedefs  []*Typedef  `json:"typedefs,omitempty"`
	Groupings []*Grouping `json:"groupings,omitempty"`
	Kids      []*Node     `json:"kids,omitempty"`
}

// Step is one step of an absolute schema path: the module that owns the
// namespace of the node and the node name.
type Step struct {
	Mod  string `json:"mod"`
	Name string `json:"name"`
}

// Augment is a top-level augment statement.
type Augment struct {
	Target []Step  `json:"target"`
	When   string  `json:"when,omitempty"`
	Body   []*Node `json:"body,omitempty"`
	// Invalid, when set, says why the generator expects this augment to be
	// reported: "missing-target", "leaf-target", "collision".
	Invalid string `json:"invalid,omitempty"`
	// Late: the target path runs through the implicit case of a shorthand
	// choice member, so it exists only after implicit cases were inserted.
	Late bool `json:"late,omitempty"`
	// Bare: steps in the namespace of the module the augment is written in are
	// rendered without a prefix (an unprefixed name in a schema node identifier
	// denotes the current module, RFC 7950 6.5).
	Bare bool `json:"bare,omitempty"`
	// Relative: the path is written without the leading "/" (not allowed for
	// an augment at the top level of a module: it names nothing).
	Relative bool `json:"relative,omitempty"`
	// BadPrefix, when > 0, is the index of a path step (never the first) that
	// is written with a prefix declared nowhere in the text.
	BadPrefix int `json:"bad_prefix,omitempty"`
}

// Deviate is one deviate statement.
type Deviate struct {
	Kind      string   `json:"kind"` // not-supported add replace delete (or an unknown word)
	Config    string   `json:"config,omitempty"`
	Default   []string `json:"default,omitempty"`
	Mandatory string   `json:"mandatory,omitempty"`
	Min       string   `json:"min,omitempty"`
	Max       string   `json:"max,omitempty"`
	Units     string   `json:"units,omitempty"`
	Type      *Type    `json:"type,omitempty"`
}

// Deviation is a deviation statement.
type Deviation struct {
	Target   []Step     `json:"target"`
	Deviates []*Deviate `json:"deviates"`
	Invalid  string     `json:"invalid,omitempty"`
	// BadPrefix: as for Augment.
	BadPrefix int `json:"bad_prefix,omitempty"`
}

// PosixModule is the name goyang looks for when it interprets posix-pattern.
const PosixModule = "openconfig-extensions"

// NewPosixModule returns the module that declares the posix-pattern extension.
func NewPosixModule() *Mod {
	return &Mod{Name: PosixModule, Prefix: "oc-ext", NS: "http://openconfig.net/yang/openconfig-ext",
		Raw: "  extension posix-pattern { argument pattern; }\n"}
}

// HasIncludeCycle reports whether some submodules include each other (in a
// circle of any length): such a set is accepted only under the option
// IgnoreSubmoduleCircularDependencies.
func (s *Scenario) HasIncludeCycle() bool {
	state := map[string]int{}
	var visit func(name string) bool
	visit = func(name string) bool {
		switch state[name] {
		case 1:
			return true
		case 2:
			return false
		}
		state[name] = 1
		if m := s.Mod(name); m != nil && m.IsSub() {
			for _, i := range m.Includes {
				if visit(i.Sub) {
					return true
				}
			}
		}
		state[name] = 2
		return false
	}
	for _, m := range s.Mods {
		if m.IsSub() && visit(m.Name) {
			return true
		}
	}
	return false
}

// Clone deep-copies a scenario (via JSON; scenarios are small).
func (s *Scenario) Clone() *Scenario {
	b, err := json.Marshal(s)
	if err != nil {
		panic(err)
	}
	var n Scenario
	if err := json.Unmarshal(b, &n); err != nil {
		panic(err)
	}
	return &n
}

// Mod returns the module or submodule called name.
func (s *Scenario) Mod(name string) *Mod {
	for _, m := range s.Mods {
		if m.Name == name {
			return m
		}
	}
	return nil
}

// Owner returns the name of the module that owns m's namespace (m itself, or
// the module a submodule belongs to).
func (m *Mod) Owner() string {
	if m.BelongsTo != "" {
		return m.BelongsTo
	}
	return m.Name
}

// IsSub reports whether m is a submodule.
func (m *Mod) IsSub() bool { return m.BelongsTo != "" }

// LatestRev returns the greatest revision date of m ("" if none).
func (m *Mod) LatestRev() string {
	r := ""
	for _, x := range m.Revs {
		if x > r {
			r = x
		}
	}
	return r
}

// FullName is name@latest-revision, or the bare name without revisions.
func (m *Mod) FullName() string {
	if r := m.LatestRev(); r != "" {
		return m.Name + "@" + r
	}
	return m.Name
}

// FileName is the conventional file name of the module text.
func (m *Mod) FileName() string { return m.FullName() + ".yang" }

// WalkNodes calls f for every node of a body, depth first (uses nodes and
// grouping bodies nested in nodes included; groupings' own bodies are visited
// through WalkGroupings).
func WalkNodes(body []*Node, f func(n *Node, parent *Node)) {
	var rec func(list []*Node, parent *Node)
	rec = func(list []*Node, parent *Node) {
		for _, n := range list {
			f(n, parent)
			rec(n.Kids, n)
			for _, g := range n.Groupings {
				WalkGroupingBodies(g, func(b []*Node) { rec(b, nil) })
			}
		}
	}
	rec(body, nil)
}

// WalkGroupingBodies calls f on g's body and on the bodies of groupings
// nested in g.
func WalkGroupingBodies(g *Grouping, f func(body []*Node)) {
	f(g.Body)
	for _, n := range g.Groupings {
		WalkGroupingBodies(n, f)
	}
}

// AllBodies calls f on every statement list of m that can contain data nodes.
func (m *Mod) AllBodies(f func(body []*Node)) {
	f(m.Body)
	for _, g := range m.Groupings {
		WalkGroupingBodies(g, f)
	}
	for _, a := range m.Augments {
		f(a.Body)
	}
}

// SortedNames returns the sorted keys of a set.
func SortedNames(m map[string]bool) []string {
	var out []string
	for k := range m {
		out = append(out, k)
	}
	sort.Strings(out)
	return out
}
