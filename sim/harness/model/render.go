package model

import (
	"fmt"
	"sort"
	"strings"
)

// Render turns the abstract module m of scenario s into YANG text.
func Render(s *Scenario, m *Mod) string {
	r := &renderer{s: s, m: m}
	return r.module()
}

// RenderAll renders every module; the result maps file name to text.
func RenderAll(s *Scenario) map[string]string {
	out := map[string]string{}
	for _, m := range s.Mods {
		out[m.FileName()] = Render(s, m)
	}
	return out
}

type renderer struct {
	s *Scenario
	m *Mod
	b strings.Builder
}

func (r *renderer) ownerOf(mod string) string {
	if x := r.s.Mod(mod); x != nil {
		return x.Owner()
	}
	return mod
}

// prefixFor returns the prefix under which the module being rendered refers to
// module (or submodule) mod, "" for "no prefix needed".
func (r *renderer) prefixFor(mod string) string {
	o := r.ownerOf(mod)
	if o == r.m.Owner() {
		return ""
	}
	if p, ok := r.m.ImportAs[o]; ok {
		return p
	}
	if x := r.s.Mod(o); x != nil {
		return x.Prefix
	}
	return o
}

func (r *renderer) refName(ref Ref) string {
	if ref.Mod == "" {
		return ref.Name
	}
	if p := r.prefixFor(ref.Mod); p != "" {
		return p + ":" + ref.Name
	}
	if r.m.OwnPrefix != 0 && ownPrefixed(r.m.OwnPrefix, ref.Name) {
		// a local definition may also be written with the module's own prefix
		return r.m.Prefix + ":" + ref.Name
	}
	return ref.Name
}

// ownPrefixed decides (as a function of the module's knob and the name) whether
// references to a local definition are written with the own prefix.
func ownPrefixed(knob uint64, name string) bool {
	h := knob ^ 0xcbf29ce484222325
	for i := 0; i < len(name); i++ {
		h ^= uint64(name[i])
		h *= 0x100000001b3
	}
	h ^= h >> 29
	return h&1 == 0
}

// Imports computes the set of foreign owner modules the text of m refers to.
func Imports(s *Scenario, m *Mod) []string {
	set := map[string]bool{}
	owner := func(mod string) string {
		if x := s.Mod(mod); x != nil {
			return x.Owner()
		}
		return mod
	}
	add := func(mod string) {
		if mod == "" {
			return
		}
		if o := owner(mod); o != m.Owner() {
			set[o] = true
		}
	}
	var doType func(t *Type)
	doType = func(t *Type) {
		if t == nil {
			return
		}
		add(t.Ref.Mod)
		if len(t.Posix) > 0 {
			add(PosixModule)
		}
		if t.Base != nil {
			add(t.Base.Mod)
		}
		for _, u := range t.Union {
			doType(u)
		}
	}
	doTypedefs := func(tds []*Typedef) {
		for _, td := range tds {
			doType(td.Type)
		}
	}
	var doBody func(body []*Node)
	var doGrouping func(g *Grouping)
	doBody = func(body []*Node) {
		for _, n := range body {
			doType(n.Type)
			if n.Uses != nil {
				add(n.Uses.Mod)
			}
			doTypedefs(n.Typedefs)
			for _, g := range n.Groupings {
				doGrouping(g)
			}
			doBody(n.Kids)
		}
	}
	doGrouping = func(g *Grouping) {
		doTypedefs(g.Typedefs)
		for _, x := range g.Groupings {
			doGrouping(x)
		}
		doBody(g.Body)
	}
	doTypedefs(m.Typedefs)
	for _, g := range m.Groupings {
		doGrouping(g)
	}
	for _, id := range m.Identities {
		for _, b := range id.Bases {
			add(b.Mod)
		}
	}
	doBody(m.Body)
	for _, a := range m.Augments {
		for _, st := range a.Target {
			add(st.Mod)
		}
		doBody(a.Body)
	}
	for _, d := range m.Deviations {
		for _, st := range d.Target {
			add(st.Mod)
		}
		for _, dv := range d.Deviates {
			doType(dv.Type)
		}
	}
	for _, x := range m.ExtraImports {
		add(x)
	}
	out := SortedNames(set)
	return out
}

func (r *renderer) line(ind int, format string, a ...interface{}) {
	r.b.WriteString(strings.Repeat("  ", ind))
	fmt.Fprintf(&r.b, format, a...)
	r.b.WriteByte('\n')
}

func q(s string) string {
	return `"` + strings.NewReplacer(`\`, `\\`, `"`, `\"`).Replace(s) + `"`
}

func (r *renderer) module() string {
	m := r.m
	if m.IsSub() {
		r.line(0, "submodule %s {", m.Name)
		if m.YangVersion != "" {
			r.line(1, "yang-version %s;", m.YangVersion)
		}
		r.line(1, "belongs-to %s { prefix %s; }", m.BelongsTo, m.Prefix)
	} else {
		r.line(0, "module %s {", m.Name)
		if m.YangVersion != "" {
			r.line(1, "yang-version %s;", m.YangVersion)
		}
		r.line(1, "namespace %s;", q(m.NS))
		r.line(1, "prefix %s;", m.Prefix)
	}
	for _, imp := range Imports(r.s, m) {
		p := r.prefixFor(imp)
		if rev := m.ImportRev[imp]; rev != "" {
			r.line(1, "import %s { prefix %s; revision-date %s; }", imp, p, rev)
		} else {
			r.line(1, "import %s { prefix %s; }", imp, p)
		}
	}
	for _, inc := range m.Includes {
		if inc.Rev != "" {
			r.line(1, "include %s { revision-date %s; }", inc.Sub, inc.Rev)
		} else {
			r.line(1, "include %s;", inc.Sub)
		}
	}
	revs := append([]string{}, m.Revs...)
	sort.Sort(sort.Reverse(sort.StringSlice(revs)))
	for _, rev := range revs {
		r.line(1, "revision %s { description %s; }", rev, q("rev "+rev))
	}
	if hasExt(m) {
		r.line(1, "extension note { argument text; }")
	}
	for _, f := range featuresNamed(m) {
		r.line(1, "feature %s;", f)
	}
	for _, td := range m.Typedefs {
		r.typedef(1, td)
	}
	for _, id := range m.Identities {
		if len(id.Bases) == 0 {
			r.line(1, "identity %s;", id.Name)
			continue
		}
		r.line(1, "identity %s {", id.Name)
		for _, b := range id.Bases {
			r.line(2, "base %s;", r.refName(b))
		}
		r.line(1, "}")
	}
	for _, g := range m.Groupings {
		r.grouping(1, g)
	}
	r.body(1, m.Body)
	for _, a := range m.Augments {
		ap := r.pathBare(a.Target, a.Bare)
		if a.Relative {
			ap = strings.TrimPrefix(ap, "/")
		}
		if a.BadPrefix > 0 {
			if steps := strings.Split(ap, "/"); a.BadPrefix+1 < len(steps) {
				st := steps[a.BadPrefix+1]
				if i := strings.Index(st, ":"); i >= 0 {
					st = st[i+1:]
				}
				steps[a.BadPrefix+1] = "undeclared-prefix:" + st
				ap = strings.Join(steps, "/")
			}
		}
		r.line(1, "augment %s {", q(ap))
		if a.When != "" {
			r.line(2, "when %s;", q(a.When))
		}
		r.body(2, a.Body)
		r.line(1, "}")
	}
	for _, d := range m.Deviations {
		dp := r.path(d.Target)
		if d.BadPrefix > 0 {
			if steps := strings.Split(dp, "/"); d.BadPrefix+1 < len(steps) {
				st := steps[d.BadPrefix+1]
				if i := strings.Index(st, ":"); i >= 0 {
					st = st[i+1:]
				}
				steps[d.BadPrefix+1] = "undeclared-prefix:" + st
				dp = strings.Join(steps, "/")
			}
		}
		r.line(1, "deviation %s {", q(dp))
		for _, dv := range d.Deviates {
			r.deviate(2, dv)
		}
		r.line(1, "}")
	}
	if m.Raw != "" {
		r.b.WriteString(m.Raw)
		if !strings.HasSuffix(m.Raw, "\n") {
			r.b.WriteByte('\n')
		}
	}
	r.line(0, "}")
	return r.b.String()
}

// featuresNamed lists the features that if-feature statements of m name.
func featuresNamed(m *Mod) []string {
	set := map[string]bool{}
	m.AllBodies(func(body []*Node) {
		WalkNodes(body, func(n *Node, _ *Node) {
			for _, x := range n.More {
				if strings.HasPrefix(x, "if-feature ") {
					set[strings.TrimSuffix(strings.TrimPrefix(x, "if-feature "), ";")] = true
				}
			}
		})
	})
	return SortedNames(set)
}

func hasExt(m *Mod) bool {
	found := false
	m.AllBodies(func(body []*Node) {
		WalkNodes(body, func(n *Node, _ *Node) {
			if n.Ext != "" {
				found = true
			}
		})
	})
	return found
}

// PathString renders an absolute schema path as seen from module m.
func PathString(s *Scenario, m *Mod, steps []Step) string {
	r := &renderer{s: s, m: m}
	return r.path(steps)
}

func (r *renderer) path(steps []Step) string { return r.pathBare(steps, false) }

// pathBare renders a path; with bare, steps in the current module's namespace
// are written without a prefix.
func (r *renderer) pathBare(steps []Step, bare bool) string {
	var sb strings.Builder
	for _, st := range steps {
		p := r.prefixFor(st.Mod)
		if p == "" {
			if bare {
				sb.WriteString("/" + st.Name)
				continue
			}
			p = r.m.Prefix
		}
		sb.WriteString("/" + p + ":" + st.Name)
	}
	return sb.String()
}

func (r *renderer) typedef(ind int, td *Typedef) {
	r.line(ind, "typedef %s {", td.Name)
	r.typ(ind+1, td.Type)
	if td.Units != "" {
		r.line(ind+1, "units %s;", q(td.Units))
	}
	if td.Default != "" {
		r.line(ind+1, "default %s;", q(td.Default))
	}
	r.line(ind, "}")
}

func (r *renderer) typ(ind int, t *Type) {
	name := r.refName(t.Ref)
	simple := t.Range == "" && t.Length == "" && len(t.Patterns) == 0 && len(t.Posix) == 0 && len(t.Enums) == 0 && len(t.Bits) == 0 && t.Path == "" && t.Base == nil && t.FractionDigits == 0 && len(t.Union) == 0
	if simple {
		r.line(ind, "type %s;", name)
		return
	}
	r.line(ind, "type %s {", name)
	if t.FractionDigits != 0 {
		r.line(ind+1, "fraction-digits %d;", t.FractionDigits)
	}
	if t.Range != "" {
		r.line(ind+1, "range %s;", q(t.Range))
	}
	if t.Length != "" {
		r.line(ind+1, "length %s;", q(t.Length))
	}
	for _, p := range t.Patterns {
		r.line(ind+1, "pattern %s;", q(p))
	}
	for _, p := range t.Posix {
		r.line(ind+1, "%s:posix-pattern %s;", r.prefixFor(PosixModule), q(p))
	}
	for _, e := range t.Enums {
		if e.Value != nil {
			r.line(ind+1, "enum %s { value %d; }", e.Name, *e.Value)
		} else {
			r.line(ind+1, "enum %s;", e.Name)
		}
	}
	for _, e := range t.Bits {
		if e.Value != nil {
			r.line(ind+1, "bit %s { position %d; }", e.Name, *e.Value)
		} else {
			r.line(ind+1, "bit %s;", e.Name)
		}
	}
	if t.Path != "" {
		r.line(ind+1, "path %s;", q(t.Path))
	}
	if t.Base != nil {
		r.line(ind+1, "base %s;", r.refName(*t.Base))
	}
	for _, u := range t.Union {
		r.typ(ind+1, u)
	}
	r.line(ind, "}")
}

func (r *renderer) grouping(ind int, g *Grouping) {
	r.line(ind, "grouping %s {", g.Name)
	for _, td := range g.Typedefs {
		r.typedef(ind+1, td)
	}
	for _, x := range g.Groupings {
		r.grouping(ind+1, x)
	}
	r.body(ind+1, g.Body)
	r.line(ind, "}")
}

func (r *renderer) body(ind int, body []*Node) {
	for _, n := range body {
		r.node(ind, n)
	}
}

func (r *renderer) node(ind int, n *Node) {
	switch n.Kind {
	case KUses:
		if n.When == "" && n.Ext == "" && len(n.More) == 0 {
			r.line(ind, "uses %s;", r.refName(*n.Uses))
			return
		}
		r.line(ind, "uses %s {", r.refName(*n.Uses))
		if n.When != "" {
			r.line(ind+1, "when %s;", q(n.When))
		}
		for _, x := range n.More {
			r.line(ind+1, "%s", x)
		}
		for _, x := range strings.Split(n.Ext, ",") {
			if x != "" {
				r.line(ind+1, "%s:note %s;", r.m.Prefix, q(x))
			}
		}
		r.line(ind, "}")
		return
	case KInput, KOutput:
		r.line(ind, "%s {", n.Kind)
	default:
		r.line(ind, "%s %s {", n.Kind, n.Name)
	}
	if n.When != "" {
		r.line(ind+1, "when %s;", q(n.When))
	}
	for _, x := range strings.Split(n.Ext, ",") {
		if x != "" {
			r.line(ind+1, "%s:note %s;", r.m.Prefix, q(x))
		}
	}
	if n.Desc != "" {
		r.line(ind+1, "description %s;", q(n.Desc))
	}
	for _, x := range n.More {
		r.line(ind+1, "%s", x)
	}
	if n.Key != "" {
		r.line(ind+1, "key %s;", q(n.Key))
	}
	if n.Type != nil {
		r.typ(ind+1, n.Type)
	}
	if n.Units != "" {
		r.line(ind+1, "units %s;", q(n.Units))
	}
	for _, d := range n.Default {
		r.line(ind+1, "default %s;", q(d))
	}
	if n.Config != "" {
		r.line(ind+1, "config %s;", n.Config)
	}
	if n.Mandatory != "" {
		r.line(ind+1, "mandatory %s;", n.Mandatory)
	}
	if n.Min != "" {
		r.line(ind+1, "min-elements %s;", n.Min)
	}
	if n.Max != "" {
		r.line(ind+1, "max-elements %s;", n.Max)
	}
	if n.OrderedBy != "" {
		r.line(ind+1, "ordered-by %s;", n.OrderedBy)
	}
	for _, td := range n.Typedefs {
		r.typedef(ind+1, td)
	}
	for _, g := range n.Groupings {
		r.grouping(ind+1, g)
	}
	r.body(ind+1, n.Kids)
	r.line(ind, "}")
}

func (r *renderer) deviate(ind int, d *Deviate) {
	empty := d.Config == "" && len(d.Default) == 0 && d.Mandatory == "" && d.Min == "" && d.Max == "" && d.Units == "" && d.Type == nil
	if empty {
		r.line(ind, "deviate %s;", d.Kind)
		return
	}
	r.line(ind, "deviate %s {", d.Kind)
	if d.Type != nil {
		r.typ(ind+1, d.Type)
	}
	if d.Units != "" {
		r.line(ind+1, "units %s;", q(d.Units))
	}
	for _, x := range d.Default {
		r.line(ind+1, "default %s;", q(x))
	}
	if d.Config != "" {
		r.line(ind+1, "config %s;", d.Config)
	}
	if d.Mandatory != "" {
		r.line(ind+1, "mandatory %s;", d.Mandatory)
	}
	if d.Min != "" {
		r.line(ind+1, "min-elements %s;", d.Min)
	}
	if d.Max != "" {
		r.line(ind+1, "max-elements %s;", d.Max)
	}
	r.line(ind, "}")
}
