#!/bin/bash
# Builds the framework from files on disk only (offline) and warms the Go build cache.
set -eu
export GOFLAGS=-mod=mod GOPROXY=off GOSUMDB=off GOTOOLCHAIN=local
cd "$(dirname "${BASH_SOURCE[0]}")"
mkdir -p bin evidence replays
(cd sim/rewriter && go build -trimpath -o ../../bin/simrewrite .)
# warm the caches (instrumented build, race runtime) with a tiny run; failures here are not fatal
VERIF_RUNS=2000 VERIF_SKIP_GATE=1 ./check C20 quick >/dev/null 2>&1 || true
echo "setup done"
