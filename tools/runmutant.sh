#!/bin/bash
# usage: tools/runmutant.sh <patch.diff> <ID> [<ID>...]     (env: TIER=quick|thorough, VERIF_SEED)
# Applies the patch to a scratch copy of /repo (never to /repo itself), runs the given
# checks against the copy with evidence/replays redirected to /tmp/mutout/<name>, and
# prints one line per check: DETECTED / missed / trouble.
set -u
export GOFLAGS=-mod=mod GOPROXY=off GOSUMDB=off GOTOOLCHAIN=local
VERIF="$(cd "$(dirname "${BASH_SOURCE[0]}")/.." && pwd)"
PATCH="$(readlink -f "$1")"; shift
NAME="$(basename "$(dirname "$PATCH")")-$(basename "$(dirname "$(dirname "$PATCH")")")"
COPY="$(mktemp -d /tmp/mutrepo.XXXXXX)"
trap 'rm -rf "$COPY"' EXIT
rsync -a --exclude .git --exclude 'MUTANT*' "${MUT_BASE:-/repo}/" "$COPY/"
(cd "$COPY" && git init -q . 2>/dev/null && { git apply --whitespace=nowarn "$PATCH" 2>/dev/null || patch -p1 -s -F3 --no-backup-if-mismatch < "$PATCH" >/dev/null 2>&1; }) || { echo "$NAME: patch does not apply"; exit 2; }
find "$COPY" -name '*.rej' -o -name '*.orig' | grep -q . && { echo "$NAME: patch applies only in part"; exit 2; }
rm -rf "$COPY/.git"
(cd "$COPY" && go build ./... && go test -vet=off -count=1 ./... >/dev/null 2>&1) || echo "$NAME: note: goyang's own tests fail with this patch"
OUT=/tmp/mutout/$NAME; mkdir -p "$OUT"
for ID in "$@"; do
  VERIF_REPO="$COPY" VERIF_OUT="$OUT" VERIF_SKIP_GATE=1 "$VERIF/check" "$ID" "${TIER:-quick}" > "$OUT/$ID.log" 2>&1
  rc=$?
  case $rc in
    1) echo "$NAME $ID: DETECTED  $(grep -m1 '^violation class' "$OUT/$ID.log")";;
    0) echo "$NAME $ID: missed";;
    *) echo "$NAME $ID: trouble (exit $rc) $(grep -m1 'trouble' "$OUT/$ID.log")";;
  esac
done
# replay exactness: every reported replay file must reproduce on the same (patched) tree
if [ "${REPLAY:-1}" = "1" ]; then
  for f in "$OUT"/replays/*.json; do
    [ -f "$f" ] || continue
    VERIF_REPO="$COPY" VERIF_SKIP_GATE=1 "$VERIF/check" replay "$f" > "$OUT/replay.log" 2>&1; rc=$?
    if [ $rc -eq 1 ]; then echo "$NAME replay $(basename $f): reproduces"; else echo "$NAME replay $(basename $f): DOES NOT REPRODUCE (exit $rc)"; fi
  done
fi
