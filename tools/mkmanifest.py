#!/usr/bin/env python3
"""Generates /verif/MANIFEST.json from the table below and validates it."""
import json, os, sys
HERE = os.path.dirname(os.path.dirname(os.path.abspath(__file__)))

TECH = "deterministic simulation with fault injection (seeded search over schedules/histories/faults; AST-inserted seams; replayable minimised cases)"

# property -> (claimed?, level text, level note, design ref, technique detail)
CLAIMED = {
 "C20": dict(
  text="Seeded exploration of (text, prefixes, nesting depth, division into Write calls, sink stop point / error kind) against an independent rendering with byte provenance; the simulated sink injects short writes and errors at every reachable output position. Sampling, not enumeration: a clean batch is evidence, not proof.",
  note="Trusted: the harness's own 20-line renderer (cross-checked against indent.String on every case); the sink honours the io.Writer contract; behaviour after a failed Write is not examined.",
  ref="DESIGN.md §4 C20",
  tech="deterministic simulation: simulated io.Writer with seeded short-write/error faults + seeded chunking, reference model with byte provenance"),
}

NA_PURE = {
 "C02": "pure function of one text (yang.Parse): no schedule, state, I/O, clock or fault for a simulator to vary; needs a reference reader + enumeration, which is a different technique",
 "C03": "pure function of one statement tree (AST builder); its one history-dependent side effect (typedef registration before acceptance) is decided under C18",
 "C09": "lexical type binding and chain inheritance are pure functions of the schema; the only order-sensitive ingredient (which error is reported first) is decided under C05",
 "C10": "pure interval arithmetic on range/length strings; no state, order, I/O or fault involved",
 "C12": "ReadOnly/Namespace/InstantiatingModule are pure functions of the instantiated tree; the schedule-dependent parts are covered elsewhere (parent links: C04 invariant; lazily filled namespace cache: C19); values are compared across schedules in the C05/C07/C13 dumps",
 "C14": "pure function of one enum/bit member sequence",
 "C15": "pure arithmetic on numbers and literals",
 "C16": "pure function of one text (position bookkeeping in the lexer/parser)",
 "C17": "Entry.Find on a processed tree is a pure function of (tree, start, path); its one side effect (rpc input/output created on demand) is monitored under C04",
}

PENDING = {}  # filled below for properties whose check is still under construction

ALL = ["C%02d" % i for i in range(1, 21)]
PLANNED = ["C01","C04","C05","C06","C07","C08","C11","C13","C18","C19","C20"]

def main():
    checks = []
    for pid in ALL:
        if pid in CLAIMED:
            c = CLAIMED[pid]
            checks.append({
                "property_id": pid,
                "quick_cmd": "./check %s quick" % pid,
                "thorough_cmd": "./check %s thorough" % pid,
                "evidence_file": "evidence/%s.json" % pid,
                "replay_cmd_template": "./check replay {path}",
                "engine": "yangsim",
                "level_claimed": {"category": "exploration", "text": c["text"], "design_ref": c["ref"]},
                "level_note": c["note"],
                "technique": c["tech"],
            })
    na = []
    for pid in ALL:
        if pid in CLAIMED:
            continue
        if pid in NA_PURE:
            na.append({"property_id": pid, "reason": "not applicable to deterministic simulation: " + NA_PURE[pid]})
        else:
            na.append({"property_id": pid, "reason": "not claimed at this commit: the simulation driver for this property (DESIGN.md §4) is still under construction"})
    m = {
        "version": 1,
        "setup_cmd": "./setup.sh",
        "hooks": {
            "guard": "none (no source hooks in /repo): seams are spliced into a scratch copy of the working tree by sim/rewriter on every check",
            "enable": "./check copies /repo's working tree to a scratch dir, runs bin/simrewrite on the copy (map-range order, lock yield points, ticks, file-system redirection -> pkg/zzsim), then builds the harness inside the copy",
            "baseline_off_cmd": "cd /repo && go test -vet=off -count=1 ./...",
            "source_commits": [],
            "add_only": True,
        },
        "engines": [{
            "name": "yangsim",
            "path": "sim/",
            "serves_properties": sorted(CLAIMED.keys()),
            "kind_free_text": "deterministic simulator: AST rewriter (sim/rewriter) + runtime seams (sim/rt) + seeded scenario generator, simulated disk/sink/scheduler, reference models, runner with minimisation and replay (sim/harness)",
        }],
        "checks": checks,
        "not_applicable": na,
        "notes": "All checks decide by " + TECH + ". Exit 0 held / 1 VIOLATION / 2 machinery trouble. VERIF_SEED selects the master seed. See DESIGN.md.",
    }
    out = os.path.join(HERE, "MANIFEST.json")
    json.dump(m, open(out, "w"), indent=1)
    open(out, "a").write("\n")
    try:
        import jsonschema
        jsonschema.validate(m, json.load(open("/root/.vp/MANIFEST.schema.json")))
        print("MANIFEST.json valid;", len(checks), "checks,", len(na), "not applicable")
    except ImportError:
        print("jsonschema not available; not validated")

if __name__ == "__main__":
    main()
