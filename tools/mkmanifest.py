#!/usr/bin/env python3
"""Generates /verif/MANIFEST.json from the table below and validates it."""
import json, os, sys
HERE = os.path.dirname(os.path.dirname(os.path.abspath(__file__)))

TECH = "deterministic simulation with fault injection (seeded search over schedules/histories/faults; AST-inserted seams; replayable minimised cases)"

# property -> (claimed?, level text, level note, design ref, technique detail)
CLAIMED = {
 "C20": dict(
  text="Seeded exploration of (text, prefixes, nesting depth, division into Write calls, sink stop point / error kind) against an independent rendering with byte provenance; the simulated sink injects short writes (with and without an error) and errors at every reachable output position; texts of 0-24 runes, one case in 60 repeated up to about 512 / 4096 / 8192 bytes. Sampling, not enumeration: a clean batch is evidence, not proof.",
  note="Trusted: the harness's own 20-line renderer (cross-checked against indent.String on every case); the sink honours the io.Writer contract; behaviour after a failed Write is not examined.",
  ref="DESIGN.md §4 C20",
  tech="deterministic simulation: simulated io.Writer with seeded short-write/error faults + seeded chunking, reference model with byte provenance"),
 "C05": dict(
  text="Seeded exploration of (generated module set, load-order permutation, map-order schedule = mode per iteration site + integer): every alternative execution, on a fresh Modules, must equal the canonical execution byte for byte (full canonical dump or error list; stdout/stderr/exit status of the instrumented goyang command; yangentry.Parse). The seam covers every range-over-map in the tree under test, so a newly introduced order dependence is reached without changing the check. Sampling, not proof.",
  note="Trusted: the AST rewriter (its instrumentation gate re-runs goyang's own suite on the rewritten copy), the canonical key order of the oracle, the dump's completeness (documented field list in DESIGN.md 3.4). Module names pairwise distinct (several revisions of one name are C13).",
  ref="DESIGN.md §4 C05",
  tech="deterministic simulation: seeded map-iteration-order oracle at every rewritten range site + seeded load order; metamorphic comparison with the canonical schedule; culprit-site minimisation"),
 "C18": dict(
  text="Seeded exploration of operation histories (Parse good / Parse again / Parse damaged-or-rejected text / Process / queries) on one Modules: after every Process the outcome must equal a fresh Modules that loads exactly the accepted texts and processes once. Bad texts are derived by simulated storage damage (short, torn, flipped, garbage, duplicated block) and by spliced rejected statements placed after the module's typedefs. Sampling, not proof.",
  note="Trusted: the canonical dump; 'accepted' = Parse returned nil; one module per text; loads are Parse calls (no disk). The batch run uses the same map-order schedule as the history.",
  ref="DESIGN.md §4 C18",
  tech="deterministic simulation: seeded operation histories with injected failed loads (storage-damaged texts), checked against a batch reference execution after every step"),
 "C01": dict(
  text="Seeded exploration of the history / fault part of crash-freedom: generated (incl. deliberately cyclic, dangling, colliding) module sets and the repository's testdata on a simulated disk with storage faults (lost, unreadable, vanished, short, torn, bit-flipped, garbage, duplicated block, stale content, unreadable directory), histories of Parse/Read/GetModule/Process/queries incl. incomplete sets and re-Process, under seeded map order, with simulated time (tick budget) and call-depth bounds standing in for hang and stack overflow. Crash-freedom over all byte strings is NOT claimed (pure-function fuzzing claim).",
  note="Trusted: tick/depth budgets have >= 50x headroom over measured need; a process-killing fault (fatal error) is attributed by the RUN protocol and confirmed in a fresh process. Queries are issued after a Process (a clean one, or in half of the cases one that returned errors), never after a load that has not been processed (API contract).",
  ref="DESIGN.md §4 C01",
  tech="deterministic simulation: simulated disk with seeded fault plan + seeded operation histories + tick/depth budget as simulated time; oracle = every call returns"),
 "C04": dict(
  text="State invariant monitored after every clean Process of seeded simulated executions (generated module sets in rotation over the other drivers' profiles x load order x map order x re-Process x read operations that mutate: Find creating rpc input/output on demand): proper-tree invariant walked over every module and submodule tree (filing name, parent links incl. rpc input/output, every node object reached once, kind/child-map/type/list-attribute consistency, choice members are cases, no augment left, no recorded error anywhere); a set in which the reference model finds an error-carrying construct must not come back clean. Sampling, not proof.",
  note="For a conflict-free scenario the invariant is a pure function of the input; the simulator adds the schedule/history dimension (which colliding augment merges first, error landing after the last sweep, lazily created nodes) plus workload diversity. Trusted: the invariant walker (dump.Invariants), the reference model's notion of 'must report'.",
  ref="DESIGN.md §4 C04",
  tech="deterministic simulation: invariant checked after every step of seeded executions (map order, load order, re-Process, mutating reads)"),
 "C06": dict(
  text="Seeded exploration of grouping-heavy module sets (nested groupings, groupings in submodules/imported modules, 2+ uses of one grouping, augments and deviations aimed at single instances) under load-order x map-order executions and batch / re-Process / incremental-load histories: every tree must equal an independent reference expansion computed from the abstract scenario, un-targeted instances stay un-mutated, and no node object is shared between instances or with the cached grouping tree. Sampling, not proof.",
  note="Trusted: the reference schema compiler (sim/harness/model/ref.go, ~800 lines over maps and slices, shares no code with goyang), the structural dump. Names are unique per scenario (shadowing is C09). refine / uses-augment excluded as in the property.",
  ref="DESIGN.md §4 C06",
  tech="deterministic simulation: seeded schedules and histories over generated schemas, refinement check against a small executable reference model + pointer-disjointness invariant"),
 "C07": dict(
  text="Seeded exploration of module sets with 1-10 augments (chains in reverse dependency order, targets from uses / submodules / choice / case / rpc input-output incl. undeclared / notification / list, augments in submodules, one optional invalid augment) under load-order x map-order executions, batch / re-Process / incremental histories and re-permuted declaration order: valid sets must be clean and equal the reference graft (exactly one copy per augment child, augmenting module's namespace on grafted subtrees, nothing else changed); invalid sets must report errors in every execution; all executions byte-equal; the retry loop terminates within the tick budget. Sampling, not proof.",
  note="Trusted: the reference schema compiler, the structural dump. Implicit-case targets and uses-augment excluded as in the property; error oracle existential.",
  ref="DESIGN.md §4 C07",
  tech="deterministic simulation: seeded load order / map order / declaration order over generated augment graphs, refinement check against the reference graft"),
 "C08": dict(
  text="Seeded exploration of base sets plus 1-3 deviating modules (1-6 deviations, 1-3 deviate statements each, every kind and property, RFC-valid sequences like delete-then-add, one optional un-appliable deviation of the listed classes; default and ignore-not-supported options) under load-order x map-order executions: valid sets clean and equal to the reference application in written order; frame condition checked model-independently against the same modules without the deviating modules; un-appliable deviations reported in every execution; all executions byte-equal. Sampling, not proof.",
  note="Trusted: the reference schema compiler's deviation rules (RFC 7950 7.20.3 as the property reads it), the structural dump. One deviation per node; must/unique excluded.",
  ref="DESIGN.md §4 C08",
  tech="deterministic simulation: seeded schedules over generated deviation sets, differential run (with vs without deviating modules) + reference application"),
 "C11": dict(
  text="Seeded exploration of identity graphs (diamonds, multiple bases, cross-module edges, equal names in different modules, submodule identities, optional undefined base or cycle) under load-order x map-order executions and batch / re-Process / incremental histories: each identity's value list equals the graph-theoretic closure computed from the abstract scenario (each once, never itself), the sequence is identical in every execution and history, identityref bases are the modules' own identity objects; invalid graphs are reported within the tick budget. Sampling, not proof.",
  note="Trusted: the reference closure (model/ref.go identities()), the dump. Every generated submodule is included by its module.",
  ref="DESIGN.md §4 C11",
  tech="deterministic simulation: seeded load order / map order / re-Process histories over generated identity graphs, checked against a reference transitive closure"),
 "C13": dict(
  text="Three seeded sub-explorations: (revisions) sets of (name, revision list) texts and importers/includers (one text possibly offered twice under one source name) loaded in all orders (<= 5 texts) or 6 seeded orders against a reference binder; (files) simulated directory trees with candidates, near-miss names and storage faults against a reference chooser written from the documented rule, the opened path observed at the simulated disk; (split) a generated module distributed over 1-4 submodules (nested includes; including each other under the ignore-circular-dependencies option) must dump structurally equal to the unsplit module under load-order x map-order executions. Sampling (orders enumerated for small sets), not proof.",
  note="Trusted: reference binder and chooser (props/c13.go), structural dump. Open finding C13-norev (revision-less + revisioned pair) is left out of random runs and replayed from known/. dir/... entries: weak oracle as documented in DESIGN.md.",
  ref="DESIGN.md §4 C13",
  tech="deterministic simulation: enumerated/seeded load orders, simulated disk with near-miss names and faults observed at the disk seam, split-vs-unsplit metamorphic runs under seeded schedules"),
 "C19": dict(
  text="Seeded search over interleavings of real caller goroutines running the -race built, instrumented library: (K1) 2-4 independent load+Process+dump pipelines (Parse, or Read by name from their own directories of a shared read-only simulated disk with imports fetched on demand; rejected texts included), (K2e) readers of the error accessors of a set whose Process reported errors, (K2) 2-6 readers of one processed set issuing the read operations the property lists, incl. simultaneous first-time namespace lookups. The simulated scheduler decides who proceeds at every lock acquisition/release and, with seeded probability, at every function entry and loop head; a task may be descheduled while holding a lock. Oracles: Go race detector (exit 66, attributed by the RUN protocol, confirmed in a fresh process), per-operation equality with the sequential result, bounded progress. Sampling of schedules, not proof.",
  note="Trusted: the scheduler adds no happens-before edge (plain variables in //go:norace code + runtime.Gosched under GOMAXPROCS=1; probe 1 in DESIGN.md appendix A); the race detector's bounded history can miss a race in one schedule, never invent one; sync.Pool's release/acquire annotations (fmt's buffer pool) hid races at random, so the -race harness is built with an overlay of sync/pool.go in which Put drops every object (within Pool's contract); process-wide state is kept cold (worker processes replaced every 20 runs, sequential expectation computed after the concurrent phase). Lookups of missing nodes are excluded (they write an error into the tree; the property speaks of existing nodes).",
  ref="DESIGN.md §4 C19",
  tech="deterministic simulation: seeded turn-based scheduler over real goroutines at AST-inserted lock/tick yield points, Go race detector as happens-before oracle, sequential results as reference"),
}

NA_PURE = {
 "C02": "pure function of one text (yang.Parse): no schedule, state, I/O, clock or fault for a simulator to vary; needs a reference reader + enumeration, which is a different technique",
 "C03": "pure function of one statement tree (AST builder); its one history-dependent side effect (typedef registration before acceptance) is decided under C18",
 "C09": "lexical type binding and chain inheritance are pure functions of the schema; the only order-sensitive ingredient (which error is reported first) is decided under C05",
 "C10": "pure interval arithmetic on range/length strings; no state, order, I/O or fault involved",
 "C12": "ReadOnly/Namespace/InstantiatingModule are pure functions of the instantiated tree; the schedule-dependent parts are covered elsewhere (parent links: C04 invariant; lazily filled namespace cache: C19); values are compared across schedules in the C05/C07/C13 dumps",
 "C14": "pure function of one enum/bit member sequence",
 "C15": "pure arithmetic on numbers and literals",
 "C16": "pure function of one text (position bookkeeping in the lexer/parser)",
 "C17": "Entry.Find on a processed tree is a pure function of (tree, start, path); its one side effect (rpc input/output created on demand) is monitored under C04",
}

PENDING = {}  # filled below for properties whose check is still under construction

ALL = ["C%02d" % i for i in range(1, 21)]
PLANNED = ["C01","C04","C05","C06","C07","C08","C11","C13","C18","C19","C20"]

def main():
    checks = []
    for pid in ALL:
        if pid in CLAIMED:
            c = CLAIMED[pid]
            checks.append({
                "property_id": pid,
                "quick_cmd": "./check %s quick" % pid,
                "thorough_cmd": "./check %s thorough" % pid,
                "evidence_file": "evidence/%s.json" % pid,
                "replay_cmd_template": "./check replay {path}",
                "engine": "yangsim",
                "level_claimed": {"category": "exploration", "text": c["text"], "design_ref": c["ref"]},
                "level_note": c["note"],
                "technique": c["tech"],
            })
    na = []
    for pid in ALL:
        if pid in CLAIMED:
            continue
        if pid in NA_PURE:
            na.append({"property_id": pid, "reason": "not applicable to deterministic simulation: " + NA_PURE[pid]})
        else:
            na.append({"property_id": pid, "reason": "not claimed at this commit: the simulation driver for this property (DESIGN.md §4) is still under construction"})
    m = {
        "version": 1,
        "setup_cmd": "./setup.sh",
        "hooks": {
            "guard": "none (no source hooks in /repo): seams are spliced into a scratch copy of the working tree by sim/rewriter on every check",
            "enable": "./check copies /repo's working tree to a scratch dir, runs bin/simrewrite on the copy (map-range order, lock yield points, ticks, file-system redirection -> pkg/zzsim), then builds the harness inside the copy",
            "baseline_off_cmd": "cd /repo && go test -vet=off -count=1 ./...",
            "source_commits": [],
            "add_only": True,
        },
        "engines": [{
            "name": "yangsim",
            "path": "sim/",
            "serves_properties": sorted(CLAIMED.keys()),
            "kind_free_text": "deterministic simulator: AST rewriter (sim/rewriter) + runtime seams (sim/rt) + seeded scenario generator, simulated disk/sink/scheduler, reference models, runner with minimisation and replay (sim/harness)",
        }],
        "checks": checks,
        "not_applicable": na,
        "notes": "All checks decide by " + TECH + ". Exit 0 held / 1 VIOLATION / 2 machinery trouble. VERIF_SEED selects the master seed. See DESIGN.md.",
    }
    out = os.path.join(HERE, "MANIFEST.json")
    json.dump(m, open(out, "w"), indent=1)
    open(out, "a").write("\n")
    try:
        import jsonschema
        jsonschema.validate(m, json.load(open("/root/.vp/MANIFEST.schema.json")))
        print("MANIFEST.json valid;", len(checks), "checks,", len(na), "not applicable")
    except ImportError:
        print("jsonschema not available; not validated")

if __name__ == "__main__":
    main()
