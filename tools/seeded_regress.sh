#!/bin/bash
# usage: tools/seeded_regress.sh [id-glob]   -- runs every kept seeded change against the
# current /repo (scratch copies only) with the quick check of the property it breaks and
# prints DETECTED / missed / stale (patch no longer applies to the repaired tree).
cd "$(dirname "${BASH_SOURCE[0]}")/.."
for d in seeded/${1:-C*}; do
  [ -f "$d/patch.diff" ] || continue
  prop=$(python3 -c "import json;m=json.load(open('$d/meta.json'));print(m.get('regress_with',m['breaks_property']))")
  out=$(REPLAY=0 tools/runmutant.sh "$d/patch.diff" $prop 2>&1 | grep -v '^error:' | tail -1)
  echo "$(basename $d): $out"
done
