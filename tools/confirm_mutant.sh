#!/bin/bash
# usage: tools/confirm_mutant.sh /tmp/wt/C06 1 [race]   -> confirms patch applies, suite passes, demo fails with / passes without
export GOFLAGS=-mod=mod GOPROXY=off GOSUMDB=off GOTOOLCHAIN=local
WT=$1; K=$2; RACE=${3:-}
cd $WT || exit 2
git checkout -q -- . 2>/dev/null
M=MUTANT$K
git apply --check $M/patch.diff || { echo "$WT/$M: patch does not apply"; exit 2; }
run_demo() {
  if [ -f $M/demo/main.go ]; then
    timeout 120 go run ${RACE:+-race} ./$M/demo > /tmp/demo.out 2>&1; echo $?
  elif [ -f $M/demo_test.go ]; then
    pkgdir=pkg/yang; grep -q "^package indent" $M/demo_test.go && pkgdir=pkg/indent
    cp $M/demo_test.go $pkgdir/zz_demo_test.go
    name=$(grep -o "func Test[A-Za-z0-9_]*" $M/demo_test.go | head -1 | sed 's/func //')
    timeout 180 go test ${RACE:+-race} -vet=off -count=1 -run "$name" ./$pkgdir/ > /tmp/demo.out 2>&1; r=$?; rm -f $pkgdir/zz_demo_test.go; echo $r
  else echo 99; fi
}
clean=$(run_demo)
git apply $M/patch.diff
go build ./... || { echo "$M: does not build"; git checkout -q -- .; exit 2; }
suite=0; go test -vet=off -count=1 ./pkg/... . > /tmp/suite.out 2>&1 || suite=1
mut=$(run_demo)
git checkout -q -- .
echo "$WT/$M: demo on clean tree exit=$clean, suite with patch fail=$suite, demo with patch exit=$mut"
