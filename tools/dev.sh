#!/bin/bash
# developer loop: keeps an instrumented scratch copy in /tmp/vdev and rebuilds the harness there
export GOFLAGS=-mod=mod GOPROXY=off GOSUMDB=off GOTOOLCHAIN=local
set -e
D=/tmp/vdev
if [ ! -d $D/repo ] || [ "${1:-}" = "fresh" ]; then
  rm -rf $D; mkdir -p $D/repo $D/work
  rsync -a --exclude .git ${VERIF_REPO:-/repo}/ $D/repo/
  mkdir -p $D/repo/pkg/zzsim
  cp /verif/sim/rt/*.go $D/repo/pkg/zzsim/
  (cd $D/repo && /verif/bin/simrewrite -dir . >/dev/null)
fi
cp /verif/sim/rt/zzsim.go $D/repo/pkg/zzsim/
rsync -a --delete /verif/sim/harness/ $D/repo/zzverif/
printf 'package main\n\nimport _ "github.com/openconfig/goyang/zzverif/clihook"\n' > $D/repo/zz_clihook.go
cd $D/repo && go build ./zzverif/... && go build -trimpath -o $D/yangsim ./zzverif/cmd/yangsim && go build -trimpath -o $D/goyang-cli . && echo built $D/yangsim
go build -trimpath -o $D/yangdbg ./zzverif/cmd/yangdbg
if [ "${DEV_RACE:-0}" = "1" ]; then go build -race -trimpath -o $D/yangsim-race ./zzverif/cmd/yangsim && echo built race; fi
