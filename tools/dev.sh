#!/bin/bash
# developer loop: keeps an instrumented scratch copy in /tmp/vdev and rebuilds the harness there
export GOFLAGS=-mod=mod GOPROXY=off GOSUMDB=off GOTOOLCHAIN=local
set -e
D=/tmp/vdev
if [ ! -d $D/repo ] || [ "${1:-}" = "fresh" ]; then
  rm -rf $D; mkdir -p $D/repo $D/work
  rsync -a --exclude .git ${VERIF_REPO:-/repo}/ $D/repo/
  mkdir -p $D/repo/pkg/zzsim
  cp /verif/sim/rt/*.go $D/repo/pkg/zzsim/
  (cd $D/repo && /verif/bin/simrewrite -dir . >/dev/null)
fi
cp /verif/sim/rt/zzsim.go $D/repo/pkg/zzsim/
rsync -a --delete /verif/sim/harness/ $D/repo/zzverif/
printf 'package main\n\nimport _ "github.com/openconfig/goyang/zzverif/clihook"\n' > $D/repo/zz_clihook.go
cd $D/repo && go build ./zzverif/... && go build -trimpath -o $D/yangsim ./zzverif/cmd/yangsim && go build -trimpath -o $D/goyang-cli . && echo built $D/yangsim
go build -trimpath -o $D/yangdbg ./zzverif/cmd/yangdbg
if [ "${DEV_RACE:-0}" = "1" ]; then
  mkdir -p $D/ovl; R=$(go env GOROOT)
  sed 's/if runtime_randn(4) == 0 {/if true {/' $R/src/sync/pool.go > $D/ovl/pool.go
  printf '{"Replace": {"%s/src/sync/pool.go": "%s/ovl/pool.go"}}\n' $R $D > $D/ovl/overlay.json
  go build -race -trimpath -overlay $D/ovl/overlay.json -o $D/yangsim-race ./zzverif/cmd/yangsim && echo built race
fi
