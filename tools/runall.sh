#!/bin/bash
# runs every registered quick (or thorough) check against /repo and validates the evidence files
cd /verif
TIER=${1:-quick}
rc=0
for id in $(python3 -c "import json;print(' '.join(c['property_id'] for c in json.load(open('MANIFEST.json'))['checks']))"); do
  ./check $id $TIER > /tmp/runall-$id.log 2>&1; r=$?
  echo "$id exit=$r $(grep '^summary' /tmp/runall-$id.log | cut -c1-200) $(grep -c '^KNOWN-FINDING' /tmp/runall-$id.log) known"
  [ $r -ne 0 ] && rc=1
done
python3-vt - <<'PY'
import json, jsonschema, glob
s=json.load(open('/root/.vp/EVIDENCE.schema.json'))
for f in sorted(glob.glob('/verif/evidence/*.json')):
    e=json.load(open(f))
    try:
        jsonschema.validate(e,s); print(f.split('/')[-1],'valid', e['tier'], e['coverage']['evaluations'], e['coverage']['distinct_nontrivial'])
    except Exception as ex:
        print(f,'INVALID',str(ex)[:200])
PY
exit $rc
